#!/venv/bin/python
"""
Self-test of the trusted oracle lib/refsem.py on hand-computed examples (README / notebooks / textbook):
run with  /venv/bin/python selftest/refsem_examples.py   (exit 0 = all examples reproduced).  Not part of any check's verdict.
"""
import os
import sys
from fractions import Fraction as Fr

sys.path.insert(0, os.path.dirname(os.path.dirname(os.path.abspath(__file__))))
from lib import lang as L, refsem

V, N = L.var, L.num
fails = 0


def expect(name, got, want):
    global fails
    ok = got == want
    print(("ok   " if ok else "FAIL ") + name, "" if ok else f"got {got} want {want}")
    fails += 0 if ok else 1


def run(prog, n, uninit=None):
    it = refsem.Interp(prog, uninit=uninit or {})
    return it, it.run(n)


# 1. geometric: stop = Bernoulli(1/2) under guard stop == 0 ; E(stop)(n) = 1 - 2^-n ; E(x)(n) = sum_{k<n} 2^-k
p = {"types": {}, "init": [["assign", "stop", ["expr", N(0)]], ["assign", "x", ["expr", N(0)]]], "guard": ["cmp", V("stop"), "==", N(0)],
     "body": [["assign", "stop", ["draw", "Bernoulli", [N("1/2")]]], ["assign", "x", ["expr", ["add", V("x"), N(1)]]]]}
it, ds = run(p, 6)
for n in range(7):
    expect(f"geometric E(stop)({n})", refsem.expectation(ds[n], {"stop": 1}, it), 1 - Fr(1, 2 ** n))
    expect(f"geometric E(x)({n})", refsem.expectation(ds[n], {"x": 1}, it), sum(Fr(1, 2 ** k) for k in range(n)))

# 2. Fibonacci by simultaneous assignment (reads old values)
p = {"types": {}, "init": [["assign", "a", ["expr", N(0)]], ["assign", "b", ["expr", N(1)]]], "guard": ["true"],
     "body": [["simult", ["a", "b"], [["expr", V("b")], ["expr", ["add", V("a"), V("b")]]]]]}
it, ds = run(p, 10)
fib = [0, 1]
for i in range(12):
    fib.append(fib[-1] + fib[-2])
for n in range(11):
    expect(f"fibonacci a({n})", refsem.expectation(ds[n], {"a": 1}, it), Fr(fib[n]))

# 3. symmetric random walk: E x = 0, Var x = n, E x^4 = 3n^2 - 2n
p = {"types": {}, "init": [["assign", "x", ["expr", N(0)]]], "guard": ["true"],
     "body": [["assign", "x", ["choice", [["add", V("x"), N(1)], ["sub", V("x"), N(1)]], [N("1/2")]]]]}
it, ds = run(p, 8)
for n in range(9):
    expect(f"walk E(x^2)({n})", refsem.expectation(ds[n], {"x": 2}, it), Fr(n))
    expect(f"walk E(x^4)({n})", refsem.expectation(ds[n], {"x": 4}, it), Fr(3 * n * n - 2 * n))

# 4. first matching branch + frozen state after the guard is false
p = {"types": {}, "init": [["assign", "a", ["expr", N(0)]], ["assign", "x", ["expr", N(0)]]], "guard": ["cmp", V("a"), "<", N(2)],
     "body": [["if", [[["cmp", V("a"), "==", N(0)], [["assign", "x", ["expr", ["add", V("x"), N(10)]]]]],
                      [["cmp", V("a"), "<=", N(1)], [["assign", "x", ["expr", ["add", V("x"), N(1)]]]]]], [["assign", "x", ["expr", N(-100)]]]],
              ["assign", "a", ["expr", ["add", V("a"), N(1)]]]]}
it, ds = run(p, 5)
expect("branches x(1)", refsem.expectation(ds[1], {"x": 1}, it), Fr(10))
expect("branches x(2)", refsem.expectation(ds[2], {"x": 1}, it), Fr(11))
expect("frozen x(5)", refsem.expectation(ds[5], {"x": 1}, it), Fr(11))
expect("frozen a(5)", refsem.expectation(ds[5], {"a": 1}, it), Fr(2))

# 5. continuous draws through moments: y = Normal(x, 2) with x = n ; E y^2 = n^2 + 2 ; Uniform(0,1): E u^3 = 1/4 ; product of independent draws
p = {"types": {}, "init": [["assign", "x", ["expr", N(0)]]], "guard": ["true"],
     "body": [["assign", "x", ["expr", ["add", V("x"), N(1)]]], ["assign", "y", ["draw", "Normal", [V("x"), N(2)]]],
              ["assign", "u", ["draw", "Uniform", [N(0), N(1)]]], ["assign", "g", ["draw", "Gamma", [N(2), N("1/2")]]],
              ["assign", "w", ["expr", ["mul", V("u"), V("g")]]]]}
it, ds = run(p, 3, {"y": Fr(0), "u": Fr(0), "g": Fr(0), "w": Fr(0)})
for n in (1, 2, 3):
    expect(f"normal E(y^2)({n})", refsem.expectation(ds[n], {"y": 2}, it), Fr(n * n + 2))
    expect(f"uniform E(u^3)({n})", refsem.expectation(ds[n], {"u": 3}, it), Fr(1, 4))
    expect(f"independent E(w^2)({n})", refsem.expectation(ds[n], {"w": 2}, it), Fr(1, 3) * Fr(3, 2))  # E u^2 * E g^2 = 1/3 * (k(k+1) theta^2 = 6/4)
    expect(f"dependent E(u*w)({n})", refsem.expectation(ds[n], {"u": 1, "w": 1}, it), Fr(1, 3) * Fr(1))  # E u^2 * E g = 1/3 * 1

print("FAILED" if fails else "all oracle examples reproduced")
sys.exit(1 if fails else 0)
