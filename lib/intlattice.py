"""Own exact integer linear algebra (reference for C16 / C06 / C07): integer kernel, rank, membership."""
from fractions import Fraction


def integer_kernel(M, k):
    """
    Basis (list of integer vectors of length k) of {e in Z^k : M e = 0} for an integer matrix M (list of rows).
    Column-style elimination with a unimodular transformation U:  M U = [H | 0]; kernel = last columns of U.
    """
    rows = [list(map(int, r)) for r in M]
    U = [[int(i == j) for j in range(k)] for i in range(k)]
    cols = list(range(k))  # work on columns; A[:, j]
    A = [r[:] for r in rows]
    piv_col = 0
    for r in range(len(A)):
        if piv_col >= k:
            break
        # make A[r][piv_col..] have a single non-zero entry (at piv_col) by column operations
        while True:
            nz = [j for j in range(piv_col, k) if A[r][j] != 0]
            if len(nz) <= 1:
                break
            j0 = min(nz, key=lambda j: abs(A[r][j]))
            for j in nz:
                if j == j0:
                    continue
                q = A[r][j] // A[r][j0]
                if q:
                    for i in range(len(A)):
                        A[i][j] -= q * A[i][j0]
                    for i in range(k):
                        U[i][j] -= q * U[i][j0]
        nz = [j for j in range(piv_col, k) if A[r][j] != 0]
        if nz:
            j0 = nz[0]
            if j0 != piv_col:
                for i in range(len(A)):
                    A[i][j0], A[i][piv_col] = A[i][piv_col], A[i][j0]
                for i in range(k):
                    U[i][j0], U[i][piv_col] = U[i][piv_col], U[i][j0]
            piv_col += 1
    # columns piv_col.. of A are zero in all processed rows; by construction they are zero in all rows
    kern = []
    for j in range(piv_col, k):
        assert all(A[i][j] == 0 for i in range(len(A)))
        kern.append([U[i][j] for i in range(k)])
    return kern


def rank(vectors):
    """rank over Q of a list of integer vectors"""
    rows = [[Fraction(x) for x in v] for v in vectors]
    r = 0
    ncols = len(rows[0]) if rows else 0
    for c in range(ncols):
        p = None
        for i in range(r, len(rows)):
            if rows[i][c] != 0:
                p = i
                break
        if p is None:
            continue
        rows[r], rows[p] = rows[p], rows[r]
        for i in range(len(rows)):
            if i != r and rows[i][c] != 0:
                f = rows[i][c] / rows[r][c]
                rows[i] = [a - f * b for a, b in zip(rows[i], rows[r])]
        r += 1
    return r


def integer_combination(basis, v):
    """
    If v is an integer combination of the (linearly independent) basis vectors return the coefficients,
    if it is only a rational combination return the rational coefficients with flag False, else None.
    returns (coeffs, is_integer) or None
    """
    r = len(basis)
    k = len(v)
    if r == 0:
        return ([], True) if all(x == 0 for x in v) else None
    # solve sum_i c_i basis[i] = v  (k equations, r unknowns)
    aug = [[Fraction(basis[i][j]) for i in range(r)] + [Fraction(v[j])] for j in range(k)]
    row = 0
    piv = []
    for c in range(r):
        p = None
        for i in range(row, k):
            if aug[i][c] != 0:
                p = i
                break
        if p is None:
            return None  # basis not independent
        aug[row], aug[p] = aug[p], aug[row]
        pv = aug[row][c]
        aug[row] = [a / pv for a in aug[row]]
        for i in range(k):
            if i != row and aug[i][c] != 0:
                f = aug[i][c]
                aug[i] = [a - f * b for a, b in zip(aug[i], aug[row])]
        piv.append(c)
        row += 1
    for i in range(row, k):
        if aug[i][r] != 0:
            return None
    coeffs = [aug[i][r] for i in range(r)]
    return coeffs, all(c.denominator == 1 for c in coeffs)


def same_lattice(b1, b2):
    """both directions: every vector of b1 is an integer combination of b2 and vice versa (b1, b2 independent sets)"""
    for v in b1:
        res = integer_combination(b2, v)
        if res is None or not res[1]:
            return False
    for v in b2:
        res = integer_combination(b1, v)
        if res is None or not res[1]:
            return False
    return True
