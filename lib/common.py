"""Helpers shared by the program-level properties (C01, C03, C05, C09-C11, C17-C19)."""
import hashlib
import json
from fractions import Fraction

from . import lang as L
from . import refsem
from . import polar_driver as pd

UNINIT_VALUES = ["3", "-2", "5/2", "7", "-1/3"]


def uninit_vars(prog):
    """variables that may be read before being written: everything not assigned in the init block"""
    init_assigned = L.stmts_assigned(prog["init"])
    return sorted(v for v in L.program_vars(prog) if v not in init_assigned)


def oracle_runs(prog, points, N, uninit_idx=0, max_states=20000, on_assign=None):
    """for every parameter point: (env, uninit_values, interp, [dist_0..dist_N]) ; may raise OracleGiveUp"""
    out = []
    uv = uninit_vars(prog)
    for j, env in enumerate(points or [{}]):
        envF = {k: Fraction(v) for k, v in env.items()}
        p2 = L.subst_syms_program(prog, envF) if envF else prog
        un = {v: Fraction(UNINIT_VALUES[(i + j + uninit_idx) % len(UNINIT_VALUES)]) for i, v in enumerate(uv)}
        it = refsem.Interp(p2, uninit=un, max_states=max_states, on_assign=on_assign)
        dists = it.run(N)
        out.append((env, un, it, dists))
    return out


def polar_subs(env, un):
    """x0 symbols for variables read before assignment; a variable that is never assigned is a plain symbol"""
    s = {k: Fraction(v) for k, v in env.items()}
    for v, val in un.items():
        s[v + "0"] = val
        s.setdefault(v, val)
    return s


def case_key(case, extra=""):
    return hashlib.sha1((json.dumps(case, sort_keys=True, default=str) + extra).encode()).hexdigest()


def fmt(x):
    if isinstance(x, Fraction):
        return L.fs(x)
    return str(x)


def compare_closed_form(expr, mono, runs, N, tol_digits=40):
    """
    Compare Polar's closed form with the oracle at n = 0..N for all parameter points.
    Returns None if all agree, else dict(first_n, point, polar, truth).
    Points where Polar's formula is undefined (pole) are skipped and counted.
    """
    skipped = 0
    for env, un, it, dists in runs:
        subs = polar_subs(env, un)
        for n in range(N + 1):
            truth = refsem.expectation(dists[n], mono, it)
            try:
                pv = pd.eval_closed_form(expr, n, subs)
            except ValueError:
                skipped += 1
                continue
            if not pd.values_equal(pv, truth, tol_digits):
                return {"first_n": n, "point": env, "uninit": {k: fmt(v) for k, v in un.items()},
                        "polar": fmt(pv), "truth": fmt(truth)}, skipped
    return None, skipped


class NotRational(Exception):
    pass


def exact_fraction(e):
    """sympy number -> Fraction without guessing (nsimplify invents closed forms for radicals): Rational, decimal Float, or simplifies to one"""
    import sympy

    e = sympy.sympify(e)
    if e.is_Rational:
        return Fraction(int(e.p), int(e.q))
    if e.is_Float:
        return Fraction(str(e))
    e2 = sympy.simplify(e)
    if e2.is_Rational:
        return Fraction(int(e2.p), int(e2.q))
    if e2.is_Float:
        return Fraction(str(e2))
    raise NotRational(str(e2)[:200])
