"""Known-finding classifiers (documented predicates recognising a listed root cause)."""


def classify_wrong_value(case, verdict):
    return None
