"""
Exact reference semantics of the loop language (trusted oracle).  Shares no code with Polar and
uses neither sympy nor symengine.

A *distribution* is a list of (probability: Fraction, State).  A State maps variables to values.
Values are polynomials (class P) with Fraction coefficients over *draw symbols*: generator
(sid, kind) with kind 0 = the drawn value itself, 1 = sin, 2 = cos, 3 = exp of it.  Every state
carries the list of families of its symbols; symbols are independent; expectations are taken by
replacing each symbol's power product by the family's (joint) moment.

Semantics (as quoted in property C01): statements in order, first matching if/elif/else branch,
independent draws and choices, simultaneous assignment reads old values, state frozen once the loop
guard is false.
"""
from fractions import Fraction
from math import comb, factorial

from .lang import F


class OracleGiveUp(Exception):
    """The oracle cannot decide this case (never a verdict)."""


# ------------------------------------------------------------------ polynomials


class P:
    __slots__ = ("t",)

    def __init__(self, t=None):
        self.t = t if t is not None else {}

    @staticmethod
    def const(c):
        c = Fraction(c)
        return P({(): c}) if c != 0 else P({})

    @staticmethod
    def gen(sid, kind=0):
        return P({(((sid, kind), 1),): Fraction(1)})

    def is_const(self):
        return not self.t or (len(self.t) == 1 and () in self.t)

    def cval(self):
        if not self.t:
            return Fraction(0)
        if len(self.t) == 1 and () in self.t:
            return self.t[()]
        raise OracleGiveUp("value depends on a continuous draw where a number is needed")

    def __add__(self, o):
        r = dict(self.t)
        for m, c in o.t.items():
            v = r.get(m, 0) + c
            if v == 0:
                r.pop(m, None)
            else:
                r[m] = v
        return P(r)

    def __neg__(self):
        return P({m: -c for m, c in self.t.items()})

    def __sub__(self, o):
        return self + (-o)

    def scale(self, k):
        k = Fraction(k)
        if k == 0:
            return P({})
        return P({m: c * k for m, c in self.t.items()})

    def __mul__(self, o):
        if len(self.t) > len(o.t):
            self, o = o, self
        r = {}
        for m1, c1 in self.t.items():
            for m2, c2 in o.t.items():
                m = _mmul(m1, m2)
                v = r.get(m, 0) + c1 * c2
                if v == 0:
                    r.pop(m, None)
                else:
                    r[m] = v
        return P(r)

    def __pow__(self, k):
        k = int(k)
        if k < 0:
            raise OracleGiveUp("negative power")
        if self.is_const():
            return P.const(self.cval() ** k)
        r = P.const(1)
        b = self
        while k:
            if k & 1:
                r = r * b
            b = b * b
            k >>= 1
        return r

    def sids(self):
        s = set()
        for m in self.t:
            for (sid, _), _e in m:
                s.add(sid)
        return s

    def relabel(self, mp):
        r = {}
        for m, c in self.t.items():
            m2 = tuple(sorted((((mp[sid], kind), e) for (sid, kind), e in m)))
            r[m2] = c
        return P(r)

    def key(self):
        return tuple(sorted(self.t.items()))

    def __eq__(self, o):
        return isinstance(o, P) and self.t == o.t

    def __hash__(self):
        return hash(self.key())

    def __repr__(self):
        if not self.t:
            return "0"
        return " + ".join(f"{c}*{m}" if m else str(c) for m, c in sorted(self.t.items()))


def _mmul(m1, m2):
    if not m1:
        return m2
    if not m2:
        return m1
    d = dict(m1)
    for g, e in m2:
        d[g] = d.get(g, 0) + e
    return tuple(sorted(d.items()))


# ------------------------------------------------------------------ moments of families (independent formulas)


def _dfact(n):
    r = 1
    while n > 1:
        r *= n
        n -= 2
    return r


def family_moment(fam, k):
    """k-th raw moment of a family, exact Fraction.  Written from textbook formulas."""
    k = int(k)
    if k == 0:
        return Fraction(1)
    name = fam[0]
    if name == "normal":  # ("normal", mu, var)
        mu, v = fam[1], fam[2]
        s = Fraction(0)
        for j in range(0, k + 1, 2):
            s += comb(k, j) * mu ** (k - j) * v ** (j // 2) * _dfact(j - 1)
        return s
    if name == "uniform":  # ("uniform", a, b)
        a, b = fam[1], fam[2]
        if a == b:
            return a**k
        return (b ** (k + 1) - a ** (k + 1)) / ((k + 1) * (b - a))
    if name == "laplace":  # ("laplace", mu, b)
        mu, b = fam[1], fam[2]
        s = Fraction(0)
        for j in range(0, k + 1, 2):
            s += comb(k, j) * mu ** (k - j) * factorial(j) * b**j
        return s
    if name == "exponential":  # ("exponential", lam)
        return Fraction(factorial(k)) / fam[1] ** k
    if name == "gamma":  # ("gamma", shape, scale)
        sh, th = fam[1], fam[2]
        r = Fraction(1)
        for i in range(k):
            r *= (sh + i) * th
        return r
    if name == "beta":  # ("beta", a, b)
        a, b = fam[1], fam[2]
        r = Fraction(1)
        for i in range(k):
            r *= (a + i) / (a + b + i)
        return r
    if name == "twopoint":  # surrogate ("twopoint", v0, v1, p1)
        return (1 - fam[3]) * fam[1] ** k + fam[3] * fam[2] ** k
    if name == "point":
        return fam[1] ** k
    raise OracleGiveUp(f"no moment formula for {fam}")


_func_moment_hook = None  # set by lib.funcmoments (mpmath quadrature) when Sin/Cos/Exp are in play


def set_func_moment_hook(h):
    global _func_moment_hook
    _func_moment_hook = h


def symbol_joint_moment(fam, powers):
    """E[ X^a sin^b X cos^c X exp(X)^d ] for powers = {kind: exp}."""
    if set(powers) <= {0}:
        return family_moment(fam, powers.get(0, 0))
    if _func_moment_hook is None:
        raise OracleGiveUp("functional moments need the quadrature hook")
    return _func_moment_hook(fam, powers.get(0, 0), powers.get(1, 0), powers.get(2, 0), powers.get(3, 0))


# ------------------------------------------------------------------ states


class State:
    __slots__ = ("v", "fams")

    def __init__(self, v=None, fams=None):
        self.v = v if v is not None else {}
        self.fams = fams if fams is not None else ()

    def copy(self):
        return State(dict(self.v), self.fams)

    def new_symbol(self, fam):
        self.fams = self.fams + (fam,)
        return len(self.fams) - 1

    def canonical(self):
        """garbage-collect unused symbols and renumber by first appearance (vars sorted)"""
        if not self.fams:
            return self
        order = []
        seen = set()
        for name in sorted(self.v):
            for m, _c in sorted(self.v[name].t.items()):
                for (sid, _k), _e in m:
                    if sid not in seen:
                        seen.add(sid)
                        order.append(sid)
        if not order:
            return State(self.v, ())
        mp = {sid: i for i, sid in enumerate(order)}
        nv = {name: (val if val.is_const() else val.relabel(mp)) for name, val in self.v.items()}
        return State(nv, tuple(self.fams[sid] for sid in order))

    def key(self):
        return (tuple((n, self.v[n].key()) for n in sorted(self.v)), self.fams)

    def expect(self, poly):
        tot = Fraction(0)
        for m, c in poly.t.items():
            if not m:
                tot += c
                continue
            per = {}
            for (sid, kind), e in m:
                per.setdefault(sid, {})[kind] = e
            term = c
            for sid, powers in per.items():
                term = _nmul(term, symbol_joint_moment(self.fams[sid], powers))
            tot = _nadd(tot, term)
        return tot


def _to_mp(x):
    import mpmath

    if isinstance(x, Fraction):
        return mpmath.mpf(x.numerator) / mpmath.mpf(x.denominator)
    return x


def _nmul(a, b):
    """product of exact (Fraction) and/or quadrature (mpmath) numbers"""
    if isinstance(a, Fraction) and isinstance(b, Fraction):
        return a * b
    return _to_mp(a) * _to_mp(b)


def _nadd(a, b):
    if isinstance(a, Fraction) and isinstance(b, Fraction):
        return a + b
    return _to_mp(a) + _to_mp(b)


def merge(dist):
    acc = {}
    order = []
    for pr, st in dist:
        if pr == 0:
            continue
        k = st.key()
        if k in acc:
            acc[k][0] += pr
        else:
            acc[k] = [pr, st]
            order.append(k)
    return [(acc[k][0], acc[k][1]) for k in order]


# ------------------------------------------------------------------ interpreter


class Interp:
    def __init__(self, program, uninit=None, max_states=20000, on_assign=None, surrogate=None):
        """
        uninit: {var: Fraction} values for variables read before being written (Polar's v0 symbols)
        on_assign: callback(var, P value, state) after every executed assignment (C05)
        surrogate: optional function(distname, params) -> list[(prob, value)] replacing continuous draws (C12)
        """
        self.p = program
        self.uninit = uninit or {}
        self.max_states = max_states
        self.on_assign = on_assign
        self.surrogate = surrogate
        self.used_uninit = set()

    # -- expressions
    def ev(self, e, st):
        k = e[0]
        if k == "num":
            return P.const(F(e[1]))
        if k == "raw":
            return P.const(F(e[2]))
        if k == "var":
            if e[1] in st.v:
                return st.v[e[1]]
            if e[1] in self.uninit:
                self.used_uninit.add(e[1])
                return P.const(self.uninit[e[1]])
            raise OracleGiveUp(f"variable {e[1]} read before initialisation")
        if k == "sym":
            raise OracleGiveUp(f"symbolic parameter {e[1]} not substituted")
        if k == "add":
            return self.ev(e[1], st) + self.ev(e[2], st)
        if k == "sub":
            return self.ev(e[1], st) - self.ev(e[2], st)
        if k == "mul":
            return self.ev(e[1], st) * self.ev(e[2], st)
        if k == "neg":
            return -self.ev(e[1], st)
        if k == "pow":
            return self.ev(e[1], st) ** int(e[2])
        if k == "div":
            d = F(e[2])
            if d == 0:
                raise OracleGiveUp("division by zero")
            return self.ev(e[1], st).scale(1 / d)
        if k == "rdiv":
            d = self.ev(e[2], st).cval()
            if d == 0:
                raise OracleGiveUp("division by zero")
            return P.const(F(e[1]) / d)
        raise ValueError(e)

    def cond(self, c, st):
        k = c[0]
        if k == "true":
            return True
        if k == "false":
            return False
        if k == "cmp":
            a = (self.ev(c[1], st) - self.ev(c[3], st)).cval()
            op = c[2]
            if op == "==":
                return a == 0
            if op == "<":
                return a < 0
            if op == ">":
                return a > 0
            if op == "<=":
                return a <= 0
            if op == ">=":
                return a >= 0
            if op == "/=":
                return a != 0
            raise ValueError(op)
        if k == "not":
            return not self.cond(c[1], st)
        if k == "and":
            return self.cond(c[1], st) and self.cond(c[2], st)
        if k == "or":
            return self.cond(c[1], st) or self.cond(c[2], st)
        raise ValueError(c)

    # -- right-hand sides: return list of (prob, value, state) ; state may gain a symbol
    def rhs(self, r, st):
        k = r[0]
        if k == "expr":
            return [(Fraction(1), self.ev(r[1], st), st)]
        if k == "choice":
            vals = [self.ev(e, st) for e in r[1]]
            ps = [self.ev(e, st).cval() for e in r[2]]
            if len(ps) == len(vals) - 1:
                ps.append(1 - sum(ps))
            if any(q < 0 for q in ps) or sum(ps) != 1:
                raise OracleGiveUp("invalid probability vector")
            return [(q, v, st) for q, v in zip(ps, vals) if q != 0]
        if k == "draw":
            return self.draw(r[1], r[2], st)
        if k == "func":
            return self.func(r[1], r[2], st)
        raise ValueError(r)

    def draw(self, name, params, st):
        pv = [self.ev(e, st) for e in params] if name != "DistExp" or params[0][0] != "rdiv" else None
        one = Fraction(1)
        if name == "Bernoulli":
            q = pv[0].cval()
            if not 0 <= q <= 1:
                raise OracleGiveUp("Bernoulli parameter outside [0,1]")
            return [(pr, P.const(v), st) for pr, v in ((q, 1), (1 - q, 0)) if pr != 0]
        if name == "Categorical":
            ps = [x.cval() for x in pv]
            if any(q < 0 for q in ps) or sum(ps) != 1:
                raise OracleGiveUp("invalid probability vector")
            return [(q, P.const(i), st) for i, q in enumerate(ps) if q != 0]
        if name == "DiscreteUniform":
            a, b = pv[0].cval(), pv[1].cval()
            if a.denominator != 1 or b.denominator != 1 or b < a:
                raise OracleGiveUp("DiscreteUniform needs integer a <= b")
            n = int(b - a) + 1
            return [(Fraction(1, n), P.const(a + i), st) for i in range(n)]
        if self.surrogate is not None:
            out = self.surrogate(name, [x.cval() for x in pv])
            return [(pr, P.const(v), st) for pr, v in out]
        st2 = st.copy()
        if name == "Normal":
            var_ = pv[1].cval()
            if var_ < 0:
                raise OracleGiveUp("negative variance")
            if pv[0].is_const():
                sid = st2.new_symbol(("normal", pv[0].cval(), var_))
                return [(one, P.gen(sid), st2)]
            sid = st2.new_symbol(("normal", Fraction(0), var_))
            return [(one, pv[0] + P.gen(sid), st2)]
        if name == "Uniform":
            if pv[0].is_const() and pv[1].is_const():
                a, b = pv[0].cval(), pv[1].cval()
                if not a < b:
                    raise OracleGiveUp("Uniform needs a < b")
                sid = st2.new_symbol(("uniform", a, b))
                return [(one, P.gen(sid), st2)]
            sid = st2.new_symbol(("uniform", Fraction(0), Fraction(1)))
            return [(one, pv[0] + (pv[1] - pv[0]) * P.gen(sid), st2)]
        if name == "Laplace":
            b = pv[1].cval()
            if b <= 0:
                raise OracleGiveUp("Laplace scale must be positive")
            if pv[0].is_const():
                sid = st2.new_symbol(("laplace", pv[0].cval(), b))
                return [(one, P.gen(sid), st2)]
            sid = st2.new_symbol(("laplace", Fraction(0), b))
            return [(one, pv[0] + P.gen(sid), st2)]
        if name == "DistExp":
            if params[0][0] == "rdiv":  # c / expr  ->  (expr / c) * Exp(1)
                c = F(params[0][1])
                den = self.ev(params[0][2], st)
                if den.is_const():
                    lam = c / den.cval()
                    if lam <= 0:
                        raise OracleGiveUp("rate must be positive")
                    sid = st2.new_symbol(("exponential", lam))
                    return [(one, P.gen(sid), st2)]
                if c <= 0:
                    raise OracleGiveUp("rate must be positive")
                sid = st2.new_symbol(("exponential", c))
                return [(one, den * P.gen(sid), st2)]
            lam = pv[0].cval()
            if lam <= 0:
                raise OracleGiveUp("rate must be positive")
            sid = st2.new_symbol(("exponential", lam))
            return [(one, P.gen(sid), st2)]
        if name == "Gamma":
            sh, th = pv[0].cval(), pv[1].cval()
            if sh <= 0 or th <= 0:
                raise OracleGiveUp("Gamma parameters must be positive")
            sid = st2.new_symbol(("gamma", sh, th))
            return [(one, P.gen(sid), st2)]
        if name == "Beta":
            a, b = pv[0].cval(), pv[1].cval()
            if a <= 0 or b <= 0:
                raise OracleGiveUp("Beta parameters must be positive")
            sid = st2.new_symbol(("beta", a, b))
            v = P.gen(sid)
            if len(pv) == 3:
                v = v.scale(pv[2].cval())
            return [(one, v, st2)]
        raise OracleGiveUp(f"draw {name} not supported by the oracle")

    def func(self, fname, arg, st):
        kind = {"Sin": 1, "Cos": 2, "Exp": 3}[fname]
        try:
            c = Fraction(str(arg))
            st2 = st.copy()
            sid = st2.new_symbol(("point", c))
            return [(Fraction(1), P.gen(sid, kind), st2)]
        except ValueError:
            pass
        val = self.ev(["var", arg], st)
        if val.is_const():
            st2 = st.copy()
            sid = st2.new_symbol(("point", val.cval()))
            return [(Fraction(1), P.gen(sid, kind), st2)]
        if len(val.t) == 1:
            (m, c), = val.t.items()
            if c == 1 and len(m) == 1 and m[0][1] == 1 and m[0][0][1] == 0:
                return [(Fraction(1), P.gen(m[0][0][0], kind), st)]
        raise OracleGiveUp("functional assignment of a non-atomic value")

    # -- statements: state -> list of (prob, state)
    def _assign(self, var, val, st, fresh):
        st2 = State(dict(st.v), st.fams)
        st2.v[var] = val
        if self.on_assign is not None:
            self.on_assign(var, val, st2)
        return st2

    def exec_stmt(self, s, st):
        k = s[0]
        if k == "assign":
            out = []
            for pr, val, st2 in self.rhs(s[2], st):
                out.append((pr, self._assign(s[1], val, st2, False)))
            return out
        if k == "gassign":
            if self.cond(s[3], st):
                out = []
                for pr, val, st2 in self.rhs(s[2], st):
                    out.append((pr, self._assign(s[1], val, st2, False)))
                return out
            val = self.ev(["var", s[4]], st)
            return [(Fraction(1), self._assign(s[1], val, st, False))]
        if k == "simult":
            # all right-hand sides are evaluated on the old values; draws are independent
            partial = [(Fraction(1), [], st)]
            for r in s[2]:
                nxt = []
                for pr, vals, cur in partial:
                    # evaluate against OLD variable values but the (possibly extended) symbol table
                    old = State(st.v, cur.fams)
                    for pr2, val, st2 in self.rhs(r, old):
                        nxt.append((pr * pr2, vals + [val], State(cur.v, st2.fams)))
                partial = nxt
            out = []
            for pr, vals, cur in partial:
                st2 = State(dict(st.v), cur.fams)
                for v, val in zip(s[1], vals):
                    st2.v[v] = val
                    if self.on_assign is not None:
                        self.on_assign(v, val, st2)
                out.append((pr, st2))
            return out
        if k == "if":
            for c, body in s[1]:
                if self.cond(c, st):
                    return self.exec_block(body, st)
            if s[2] is not None:
                return self.exec_block(s[2], st)
            return [(Fraction(1), st)]
        raise ValueError(s)

    def exec_block(self, stmts, st):
        cur = [(Fraction(1), st)]
        for s in stmts:
            nxt = []
            for pr, st1 in cur:
                for pr2, st2 in self.exec_stmt(s, st1):
                    nxt.append((pr * pr2, st2))
            if len(nxt) > self.max_states:
                raise OracleGiveUp("too many states")
            cur = nxt
        return cur

    # -- whole program
    def initial(self):
        st0 = State({v: P.const(c) for v, c in self.uninit.items()})
        d = self.exec_block(self.p["init"], st0)
        return merge([(pr, st.canonical()) for pr, st in d])

    def step(self, dist):
        out = []
        for pr, st in dist:
            if self.cond(self.p["guard"], st):
                for pr2, st2 in self.exec_block(self.p["body"], st):
                    out.append((pr * pr2, st2.canonical()))
            else:
                out.append((pr, st))
            if len(out) > 4 * self.max_states:
                raise OracleGiveUp("too many states")
        out = merge(out)
        if len(out) > self.max_states:
            raise OracleGiveUp("too many states")
        return out

    def run(self, n):
        """list of distributions after 0..n iterations"""
        d = self.initial()
        res = [d]
        for _ in range(n):
            d = self.step(d)
            res.append(d)
        return res


# ------------------------------------------------------------------ queries on distributions


def monomial_value(mono, st, interp=None):
    """mono: {var: power} -> P"""
    r = P.const(1)
    for v, k in mono.items():
        if v not in st.v:
            if interp is not None and v in interp.uninit:
                val = P.const(interp.uninit[v])
            else:
                raise OracleGiveUp(f"goal variable {v} not in state")
        else:
            val = st.v[v]
        r = r * (val ** k)
    return r


def expectation(dist, mono, interp=None, indicator=None):
    """E[ mono * indicator(state) ]"""
    tot = Fraction(0)
    for pr, st in dist:
        if indicator is not None and not indicator(st):
            continue
        tot = _nadd(tot, _nmul(pr, st.expect(monomial_value(mono, st, interp))))
    return tot


def pmf(dist, variables):
    """joint pmf over the given variables; requires constant values"""
    out = {}
    for pr, st in dist:
        key = tuple(st.v[v].cval() if v in st.v else None for v in variables)
        out[key] = out.get(key, 0) + pr
    return out


def guard_false_prob(interp, dist):
    tot = Fraction(0)
    for pr, st in dist:
        if not interp.cond(interp.p["guard"], st):
            tot += pr
    return tot
