"""Generators and exact evaluation of exponential-polynomial closed forms (C06, C07)."""
from fractions import Fraction

from hypothesis import strategies as st

RATIONAL_BASES = ["2", "3", "4", "8", "1/2", "1/4", "-1", "-2", "6", "9", "27", "2/3", "3/2", "1", "-1/2", "12", "1/3",
                  "1/6", "-3", "5", "10", "5/2", "2/5", "-6", "4/3", "3/4", "1/5"]
# bases from one multiplicative group with two generators: several independent relations that share bases
GROUPS = [["2", "3", "2/3", "3/2", "6", "1/6", "1/2", "1/3", "4", "9", "12", "4/3", "3/4"], ["2", "-2", "4", "1/2", "-1/2", "-1", "8", "1/4"],
          ["2", "5", "10", "5/2", "2/5", "1/2", "1/5", "4"], ["2", "3", "-3", "-6", "6", "-1", "-2", "1/2"]]
ALGEBRAIC_BASES = ["sqrt(2)", "-sqrt(2)", "I", "-I", "(1+sqrt(5))/2", "(1-sqrt(5))/2", "2*I", "sqrt(3)"]
COEFFS = ["1", "-1", "2", "1/2", "3", "-2", "1/3", "-3/2", "5"]
NAMES = ["ga", "gb", "gc", "gd"]


@st.composite
def closed_forms(draw, kmin=2, kmax=4, algebraic=False, max_terms=3, max_deg=2):
    """list of goals; a goal = {"terms": [[coeff, deg, base], ...], "special": [values for n=0..]}"""
    k = draw(st.integers(kmin, kmax))
    # a small common pool of bases per case makes multiplicative relations likely
    pool_src = RATIONAL_BASES + (ALGEBRAIC_BASES if algebraic else [])
    grouped = draw(st.integers(0, 4)) >= 3
    if grouped:
        pool = draw(st.lists(st.sampled_from(draw(st.sampled_from(GROUPS))), min_size=2, max_size=4, unique=True))
    else:
        pool = draw(st.lists(st.sampled_from(pool_src), min_size=1, max_size=4, unique=True))
    if algebraic and all(b in RATIONAL_BASES for b in pool) and not grouped:
        pool[0] = draw(st.sampled_from(ALGEBRAIC_BASES))
    goals = []
    for gi in range(k):
        if grouped and draw(st.integers(0, 3)) > 0:
            # a pure exponential, each base of the pool in turn
            goals.append({"terms": [["1", 0, pool[gi % len(pool)]]], "special": []})
            continue
        nt = draw(st.integers(1, max_terms))
        terms = []
        for _ in range(nt):
            r = draw(st.integers(0, 9))
            if r <= 1:
                base = "1"
            else:
                base = draw(st.sampled_from(pool))
            terms.append([draw(st.sampled_from(COEFFS)), min(max_deg, draw(st.sampled_from([0, 0, 0, 1, 1, 2]))), base])
        special = []
        if draw(st.integers(0, 4)) == 0:
            special = [draw(st.sampled_from(["0", "1", "7", "-3"])) for _ in range(draw(st.integers(1, 2)))]
        goals.append({"terms": terms, "special": special})
    return goals


def goal_expr(goal):
    """sympy closed form as Polar's solvers emit it (Piecewise special cases around the general formula)"""
    import sympy

    n = sympy.Symbol("n", integer=True)
    e = sympy.Integer(0)
    for c, j, b in goal["terms"]:
        cf = Fraction(c)
        e += sympy.Rational(cf.numerator, cf.denominator) * n ** j * sympy.sympify(b) ** n
    if goal["special"]:
        pieces = [(sympy.Rational(Fraction(v).numerator, Fraction(v).denominator), n <= i) for i, v in enumerate(goal["special"])]
        pieces.append((e, True))
        e = sympy.Piecewise(*pieces)
    return e


def goal_value(goal, nval):
    """exact value of the general formula at n (Fraction) - rational bases only"""
    tot = Fraction(0)
    for c, j, b in goal["terms"]:
        tot += Fraction(c) * Fraction(nval) ** j * Fraction(b) ** nval
    return tot


def goal_value_sym(goal, nval):
    import sympy

    tot = sympy.Integer(0)
    for c, j, b in goal["terms"]:
        cf = Fraction(c)
        tot += sympy.Rational(cf.numerator, cf.denominator) * sympy.Integer(nval) ** j * sympy.sympify(b) ** nval
    return tot


def is_rational_goal(goal):
    return all(b in RATIONAL_BASES for _, _, b in goal["terms"])


def first_general_n(goals):
    return max([len(g["special"]) for g in goals] + [0])
