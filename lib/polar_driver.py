"""
Thin functions around Polar's public entry points.  Polar is imported from /repo's working tree.
"""
import contextlib
import io
import os
import signal
import sys
import traceback
from fractions import Fraction

REPO = os.environ.get("POLAR_REPO", "/repo")
if REPO not in sys.path:
    sys.path.insert(0, REPO)

DEFAULT_SETTINGS = dict(
    transform_categoricals=False,
    cond2arithm=False,
    disable_type_inference=False,
    type_fp_iterations=100,
    numeric_roots=False,
    numeric_croots=False,
    numeric_eps=1e-10,
    trivial_guard=False,
    exact_func_moments=False,
)


class CaseTimeout(Exception):
    pass


@contextlib.contextmanager
def time_limit(seconds):
    """soft limit; a hit is 'inconclusive', never a verdict"""

    def handler(signum, frame):
        raise CaseTimeout()

    old = signal.signal(signal.SIGALRM, handler)
    signal.setitimer(signal.ITIMER_REAL, seconds)
    try:
        yield
    finally:
        signal.setitimer(signal.ITIMER_REAL, 0)
        signal.signal(signal.SIGALRM, old)


def set_settings(**opts):
    import settings
    from program.assignment import FunctionalAssignment

    full = dict(DEFAULT_SETTINGS)
    full.update(opts)
    for k, v in full.items():
        setattr(settings, k, v)
    FunctionalAssignment.exact_func_moments = full["exact_func_moments"]
    return full


def default_cli_args(**over):
    from cli import ArgumentParser

    args = ArgumentParser().get_defaults()
    for k, v in over.items():
        setattr(args, k, v)
    return args


def refusal_bucket(exc):
    """(exception type, innermost frame inside the repository: file:function)"""
    tb = traceback.extract_tb(exc.__traceback__)
    frame = None
    for fr in tb:
        fn = os.path.abspath(fr.filename)
        if fn.startswith(os.path.abspath(REPO) + os.sep):
            frame = f"{os.path.relpath(fn, REPO)}:{fr.name}"
    return f"{type(exc).__name__}@{frame}"


def parse(text):
    from inputparser import Parser

    return Parser().parse_string(text)


def normalize(program):
    from program import normalize_program

    return normalize_program(program)


def monomial_to_str(mono):
    """{var: power} -> 'x**2*y'"""
    if not mono:
        return "1"
    return "*".join(v if k == 1 else f"{v}**{k}" for v, k in sorted(mono.items()))


class Analysis:
    """parse + normalize once, then answer goals sharing solvers (as GoalsAction does)"""

    def __init__(self, text, settings_opts=None, cli_over=None):
        from recurrences import RecBuilder

        self.opts = set_settings(**(settings_opts or {}))
        self.cli_args = default_cli_args(**(cli_over or {}))
        self.program = normalize(parse(text))
        self.rec_builder = RecBuilder(self.program)
        self.solvers = {}

    def moment(self, mono):
        from symengine.lib.symengine_wrapper import sympify
        from cli.common import get_moment

        m = sympify(monomial_to_str(mono))
        return get_moment(m, self.solvers, self.rec_builder, self.cli_args, self.program)

    def goals_action(self):
        from cli.actions.goals_action import GoalsAction

        ga = GoalsAction(self.cli_args)
        ga.initialize_program(self.program, self.rec_builder)
        ga.solvers = self.solvers
        return ga


def n_symbols():
    import sympy

    return sympy.Symbol("n", integer=True), sympy.Symbol("n")


def eval_closed_form(expr, n, subs=None):
    """
    Evaluate a closed form (sympy, possibly Piecewise in n) at integer n and parameter values.
    Returns Fraction when the result is rational, otherwise a sympy number (evaluated to 60 digits),
    or raises ValueError when the value is undefined (zoo/nan) at this point.
    """
    import sympy

    ni, npl = n_symbols()
    e = sympy.sympify(expr)
    rep = {ni: sympy.Integer(n), npl: sympy.Integer(n)}
    e = e.xreplace(rep)
    if subs:
        srep = {}
        for s in e.free_symbols:
            if s.name in subs:
                v = Fraction(subs[s.name])
                srep[s] = sympy.Rational(v.numerator, v.denominator)
        if srep:
            e = e.xreplace(srep)
    e = sympy.piecewise_fold(e) if e.has(sympy.Piecewise) else e
    if e.free_symbols:
        raise KeyError(f"free symbols left: {sorted(str(s) for s in e.free_symbols)}")
    if e.is_Rational:
        return Fraction(int(e.p), int(e.q))
    if e.has(sympy.zoo) or e.has(sympy.nan) or e.has(sympy.oo):
        raise ValueError("undefined value")
    return robust_numeric(e)


class NumericallyUnstable(CaseTimeout):
    pass


def robust_numeric(e):
    """
    Numeric value of a constant expression (radicals, CRootOf, complex conjugates), trustworthy to ~60 digits:
    sympy's evalf is run at increasing working precision until two consecutive precisions agree
    (unsimplified closed forms contain differences of 600-digit numbers, a fixed precision is not enough).
    """
    import sympy

    prev = None
    for digits in (150, 600, 2400, 9600):
        v = e.evalf(digits)
        if v.has(sympy.zoo) or v.has(sympy.nan) or v.has(sympy.oo):
            raise ValueError("undefined value")
        if not v.is_number or v.free_symbols:
            raise NumericallyUnstable("not a number")
        if prev is not None:
            # compared in sympy arithmetic: Python floats overflow to inf beyond 1e308 and "inf <= inf" would accept two garbage values
            d = sympy.Abs(sympy.N(v - prev, 50))
            scale = sympy.Max(1, sympy.Abs(sympy.N(v, 50)))
            if bool(d <= sympy.Float("1e-60") * scale):
                return sympy.N(v, 70)
        prev = v
    raise NumericallyUnstable("evalf did not stabilise")


def values_equal(polar_val, ref, tol_digits=40):
    """exact when both rational, else |difference| <= 10^-tol * max(1,|ref|)"""
    import sympy

    if isinstance(polar_val, Fraction) and isinstance(ref, Fraction):
        return polar_val == ref
    pv = sympy.Rational(polar_val.numerator, polar_val.denominator) if isinstance(polar_val, Fraction) else polar_val
    if isinstance(ref, Fraction):
        rv = sympy.Rational(ref.numerator, ref.denominator)
    elif type(ref).__module__.startswith("mpmath"):
        import mpmath

        rv = sympy.Float(mpmath.nstr(mpmath.re(ref), 50), 60) + sympy.I * sympy.Float(mpmath.nstr(mpmath.im(ref), 50), 60)
    else:
        rv = sympy.Float(str(ref), 60)
    diff = sympy.Abs(sympy.N(pv - rv, 60))
    scale = sympy.Max(1, sympy.Abs(sympy.N(rv, 20)))
    return bool(diff <= sympy.Float(10) ** (-tol_digits) * scale)


def max_special_case(expr):
    from utils import get_max_case_in_piecewise
    import sympy

    return get_max_case_in_piecewise(sympy.sympify(expr))


@contextlib.contextmanager
def captured_stdout():
    buf = io.StringIO()
    old = sys.stdout
    sys.stdout = buf
    try:
        yield buf
    finally:
        sys.stdout = old


def die_with_parent():
    """called in a forked child: the kernel kills it when its parent goes away (a worker killed by the shard timeout must not leave
    its case process running)"""
    try:
        import ctypes
        import signal

        ctypes.CDLL("libc.so.6", use_errno=True).prctl(1, int(signal.SIGKILL), 0, 0, 0)  # PR_SET_PDEATHSIG
        if os.getppid() == 1:
            os._exit(1)
    except Exception:
        pass
