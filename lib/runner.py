"""
Sharded Hypothesis runner, replay, known-findings handling and evidence writer.

A property module (props/cXX.py) exposes
    PROPERTY_ID, RULE (text), ASSUMPTIONS (list of str)
    budget(tier) -> dict(shards=int, examples=int (per shard), shrink_calls=int)
    strategy(tier) -> Hypothesis strategy producing JSON-able cases
    run_case(case, tier) -> verdict dict:
        status: ok | refusal | inconclusive | gave_up | violation
        bucket: root-cause signature (refusal / violation)
        detail: anything JSON-able
        tags: list of class tags (histogram)
        nontrivial: bool, key: canonical text identifying the case (distinctness)
    classify(case, verdict) -> known-finding classifier name or None      (optional)
    sample_repr(case, verdict) -> JSON-able sample for the evidence file    (optional)
    extra_checks(tier, seed) -> list of (case, verdict) run once, outside Hypothesis   (optional)
"""
import hashlib
import importlib
import json
import os
import subprocess
import sys
import time
import traceback

VERIF = os.path.dirname(os.path.dirname(os.path.abspath(__file__)))
OUT = os.path.join(VERIF, "out")
PY = sys.executable


def mix(seed, prop, shard):
    h = hashlib.sha256(f"{seed}|{prop}|{shard}".encode()).digest()
    return int.from_bytes(h[:8], "big")


def load_prop(pid):
    return importlib.import_module(f"props.{pid.lower()}")


def load_known(pid):
    path = os.path.join(VERIF, "known_findings.json")
    if not os.path.exists(path):
        return []
    with open(path) as f:
        data = json.load(f)
    return [e for e in data.get("findings", []) if e["property"] == pid]


def _finish(v, case):
    v.setdefault("tags", [])
    v.setdefault("bucket", None)
    v.setdefault("detail", None)
    v.setdefault("nontrivial", False)
    v.setdefault("key", hashlib.sha1(json.dumps(case, sort_keys=True, default=str).encode()).hexdigest())
    return v


def _run_inline(prop, case, tier):
    try:
        v = prop.run_case(case, tier)
    except Exception as e:  # harness bug - never a violation
        v = {"status": "harness_error", "bucket": f"{type(e).__name__}", "detail": traceback.format_exc()[-2000:],
             "tags": [], "nontrivial": False}
    return _finish(v, case)


def _die_with_parent():
    from . import polar_driver as _pd

    _pd.die_with_parent()


def _limit_memory():
    """address-space cap for one case process: symbolic blow-ups (towers of powers in C14/C18) reached 54 GB and brought the OOM killer in"""
    import resource

    cap = int(float(os.environ.get("VERIF_CASE_MEM_GB", "6")) * 2 ** 30)
    try:
        resource.setrlimit(resource.RLIMIT_AS, (cap, cap))
    except (ValueError, OSError):
        pass


def guarded_run(prop, case, tier):
    """
    Run one case in a forked child process.  Every case therefore starts from the same process state (modules
    imported, nothing analysed): Polar's global state (name counter, settings, lru_caches) and sympy's caches
    cannot leak between cases, and a time limit can never leave a half-updated cache behind.
    Exceptions of the harness itself become 'harness_error' verdicts, a killed child is 'inconclusive'.
    """
    if getattr(prop, "ISOLATE", True) is False or os.environ.get("VERIF_NOFORK"):
        return _run_inline(prop, case, tier)
    import select

    hard = getattr(prop, "HARD_LIMIT", {"quick": 90, "thorough": 600})[tier]
    rfd, wfd = os.pipe()
    pid = os.fork()
    if pid == 0:
        code = 0
        try:
            os.close(rfd)
            from . import polar_driver as _pd

            _pd.die_with_parent()
            _limit_memory()
            v = _run_inline(prop, case, tier)
            if "MemoryError" in str(v.get("bucket")) or (v.get("status") == "harness_error" and "MemoryError" in str(v.get("detail"))):
                # the cap of _limit_memory was hit (by Polar or by the oracle): nothing is concluded from this case
                v = dict(v, status="inconclusive", bucket="memory_limit", detail=None)
            data = json.dumps(v, default=str).encode()
            with os.fdopen(wfd, "wb") as f:
                f.write(data)
        except BaseException:
            code = 1
        finally:
            os._exit(code)
    os.close(wfd)
    chunks = []
    deadline = time.time() + hard
    killed = False
    with os.fdopen(rfd, "rb") as f:
        while True:
            left = deadline - time.time()
            if left <= 0:
                killed = True
                break
            r, _, _ = select.select([f], [], [], min(left, 5))
            if r:
                b = f.read1(1 << 20) if hasattr(f, "read1") else f.read()
                if not b:
                    break
                chunks.append(b)
    if killed:
        try:
            os.kill(pid, 9)
        except ProcessLookupError:
            pass
    os.waitpid(pid, 0)
    if killed:
        return _finish({"status": "inconclusive", "bucket": "hard_time_limit"}, case)
    try:
        return _finish(json.loads(b"".join(chunks).decode()), case)
    except Exception:
        # aborted inside a C library (GMP aborts when the memory cap is hit) or killed from outside: no verdict, nothing concluded
        return _finish({"status": "inconclusive", "bucket": "case_process_died"}, case)


# ---------------------------------------------------------------------------------- worker


def worker_main(argv):
    pid, tier, seed, shard, outfile, enabled = argv[0], argv[1], int(argv[2]), int(argv[3]), argv[4], argv[5]
    enabled = set(x for x in enabled.split(",") if x)
    sys.path.insert(0, VERIF)
    import hypothesis
    from hypothesis import HealthCheck, Phase, given, settings

    prop = load_prop(pid)
    bud = prop.budget(tier)
    if os.environ.get("VERIF_TIME_BUDGET"):
        bud["time_budget"] = int(os.environ["VERIF_TIME_BUDGET"])  # shorter (or longer) exploration with the same generator and limits
    rec = {
        "evaluations": 0, "status": {}, "tags": {}, "refusals": {}, "nontrivial_keys": [], "samples": [],
        "known_hits": {}, "violations": [], "harness_errors": [], "shrink_calls": 0, "inconclusive": 0,
        "gave_up": 0, "extra": {},
    }
    state = {"failed": False, "best": None, "shrink_calls": 0}
    seen_nt = set()
    sample_classes = set()

    def record(case, v, counting=True):
        if counting:
            rec["evaluations"] += 1
            rec["status"][v["status"]] = rec["status"].get(v["status"], 0) + 1
            for t in v["tags"]:
                rec["tags"][t] = rec["tags"].get(t, 0) + 1
            if v["status"] == "refusal":
                rec["refusals"][v["bucket"]] = rec["refusals"].get(v["bucket"], 0) + 1
            if v["status"] in ("gave_up", "inconclusive"):
                kk = f"{v['status']}:{v['bucket']}"
                rec["extra"][kk] = rec["extra"].get(kk, 0) + 1
            if v["nontrivial"] and v["status"] in ("ok", "violation", "refusal"):
                k = hashlib.sha1(str(v["key"]).encode()).hexdigest()[:16]
                if k not in seen_nt:
                    seen_nt.add(k)
                    rec["nontrivial_keys"].append(k)
            # keep a few samples, one per (status, first tag) class
            cls = (v["status"], tuple(v["tags"][:2]))
            if len(rec["samples"]) < 8 and cls not in sample_classes and v["status"] in ("ok", "refusal"):
                sample_classes.add(cls)
                sr = prop.sample_repr(case, v) if hasattr(prop, "sample_repr") else {"case": case}
                rec["samples"].append(sr)
            for k2, val in (v.get("counters") or {}).items():
                rec["extra"][k2] = rec["extra"].get(k2, 0) + val

    def judge(case):
        """returns True if this case is an unknown violation"""
        v = guarded_run(prop, case, tier)
        if v["status"] == "harness_error":
            record(case, v, counting=not state["failed"])
            if len(rec["harness_errors"]) < 5:
                rec["harness_errors"].append({"case": case, "detail": v["detail"]})
            return False
        if v["status"] == "violation":
            cls = prop.classify(case, v) if hasattr(prop, "classify") else None
            if cls is not None and cls in enabled:
                v["tags"] = v["tags"] + [f"known:{cls}"]
                rec["known_hits"][cls] = rec["known_hits"].get(cls, 0) + 1
                record(case, v, counting=not state["failed"])
                return False
            record(case, v, counting=not state["failed"])
            state["best"] = {"case": case, "verdict": v}
            return True
        record(case, v, counting=not state["failed"])
        return False

    hseed = mix(seed, pid, shard)
    t_start = time.time()

    @hypothesis.seed(hseed)
    @settings(
        max_examples=bud["examples"], database=None, deadline=None, derandomize=False, report_multiple_bugs=False,
        suppress_health_check=list(HealthCheck), phases=[Phase.generate, Phase.shrink],
    )
    @given(prop.strategy(tier))
    def test(case):
        if time.time() - t_start > bud.get("time_budget", 10**9):
            # wall-clock budget of this shard used up: remaining cases are skipped (never a verdict)
            rec["extra"]["skipped_after_time_budget"] = rec["extra"].get("skipped_after_time_budget", 0) + 1
            return
        if state["failed"]:
            state["shrink_calls"] += 1
            if state["shrink_calls"] > bud.get("shrink_calls", 60):
                return  # budget used up: every further candidate "passes", the shrinker stops
        if judge(case):
            state["failed"] = True
            raise AssertionError("violation")

    t0 = time.time()
    try:
        test()
    except BaseException as e:  # Hypothesis re-raises the failure (or Flaky after the budget trick)
        if not state["failed"]:
            rec["harness_errors"].append({"case": None, "detail": "".join(traceback.format_exception(e))[-3000:]})
    if state["best"] is not None:
        rec["violations"].append(state["best"])
    rec["shrink_calls"] = state["shrink_calls"]
    rec["wall_s"] = time.time() - t0
    with open(outfile, "w") as f:
        json.dump(rec, f, default=str)


# ---------------------------------------------------------------------------------- replay (fresh process)


def replay_main(argv):
    pid, path, tier = argv[0], argv[1], (argv[2] if len(argv) > 2 else "quick")
    sys.path.insert(0, VERIF)
    prop = load_prop(pid)
    with open(path) as f:
        data = json.load(f)
    v = guarded_run(prop, data["case"], tier)
    cls = prop.classify(data["case"], v) if (v["status"] == "violation" and hasattr(prop, "classify")) else None
    print("REPLAY-RESULT " + json.dumps({"status": v["status"], "bucket": v["bucket"], "classifier": cls,
                                         "detail": v["detail"]}, default=str))
    return v, cls


def run_replay_subprocess(pid, path, tier="quick", timeout=900):
    env = dict(os.environ, PYTHONHASHSEED="0")
    p = subprocess.run([PY, "-m", "lib.runner", "--replay-worker", pid, path, tier], cwd=VERIF, env=env,
                       capture_output=True, text=True, timeout=timeout, preexec_fn=_die_with_parent)
    for line in p.stdout.splitlines():
        if line.startswith("REPLAY-RESULT "):
            return json.loads(line[len("REPLAY-RESULT "):])
    return {"status": "harness_error", "bucket": None, "classifier": None, "detail": (p.stdout + p.stderr)[-2000:]}


# ---------------------------------------------------------------------------------- parent


def check_main(argv):
    import argparse

    ap = argparse.ArgumentParser()
    ap.add_argument("property")
    ap.add_argument("--tier", default=os.environ.get("VERIF_TIER", "quick"), choices=["quick", "thorough"])
    ap.add_argument("--replay", default=None)
    ap.add_argument("--shards", type=int, default=None)
    ap.add_argument("--examples", type=int, default=None)
    args = ap.parse_args(argv)
    pid = args.property.upper()
    seed = int(os.environ.get("VERIF_SEED", "1"))
    sys.path.insert(0, VERIF)
    os.makedirs(OUT, exist_ok=True)

    if args.replay:
        res = run_replay_subprocess(pid, os.path.abspath(args.replay), args.tier)
        print(json.dumps(res, indent=1, default=str))
        if res["status"] == "violation":
            known = {e["identify"].get("classifier") for e in load_known(pid) if e["status"] == "open"}
            if res["classifier"] in known and res["classifier"] is not None:
                print(f"KNOWN-FINDING: property={pid} {res['classifier']}")
                return 0
            print(f"VIOLATION property={pid} replay={args.replay}")
            return 1
        return 0 if res["status"] != "harness_error" else 2

    t0 = time.time()
    try:
        prop = load_prop(pid)
    except Exception:
        traceback.print_exc()
        return 2
    bud = prop.budget(args.tier)
    shards = args.shards or bud["shards"]

    # 1. known findings: replay each open witness against the real tree, in a fresh process
    enabled = []
    known_lines = []
    for e in load_known(pid):
        if e["status"] != "open":
            continue
        wit = os.path.join(VERIF, e["identify"]["witness"])
        res = run_replay_subprocess(pid, wit, args.tier)
        if res["status"] == "violation" and res["classifier"] == e["identify"]["classifier"]:
            enabled.append(e["identify"]["classifier"])
            known_lines.append(f"KNOWN-FINDING: property={pid} {e['id']} {e['what']}")
        else:
            print(f"note: witness of {e['id']} no longer fails ({res['status']}); its classifier is disabled for this run")
    for ln in known_lines:
        print(ln)

    # 2. shards
    procs = []
    env = dict(os.environ, PYTHONHASHSEED="0")
    if args.examples:
        env["VERIF_EXAMPLES"] = str(args.examples)
    run_dir = os.path.join(OUT, f"{pid}-{args.tier}-{seed}")
    os.makedirs(run_dir, exist_ok=True)
    for fn in os.listdir(run_dir):
        if fn.startswith("violation-"):
            os.remove(os.path.join(run_dir, fn))
    for sh in range(shards):
        outfile = os.path.join(run_dir, f"shard{sh}.json")
        if os.path.exists(outfile):
            os.remove(outfile)
        log = open(os.path.join(run_dir, f"shard{sh}.log"), "w")
        p = subprocess.Popen([PY, "-m", "lib.runner", "--worker", pid, args.tier, str(seed), str(sh), outfile,
                              ",".join(enabled)], cwd=VERIF, env=env, stdout=log, stderr=subprocess.STDOUT, preexec_fn=_die_with_parent)
        procs.append((sh, p, outfile, log))
    deadline = time.time() + bud.get("shard_timeout", 3600)
    recs = []
    dead = 0
    for sh, p, outfile, log in procs:
        try:
            p.wait(timeout=max(1, deadline - time.time()))
        except subprocess.TimeoutExpired:
            p.kill()
            p.wait()
        log.close()
        if os.path.exists(outfile):
            with open(outfile) as f:
                recs.append(json.load(f))
        else:
            dead += 1

    if not recs:
        print(f"harness error: all {shards} shards died; see {run_dir}")
        return 2

    # 3. merge
    merged = {"evaluations": 0, "status": {}, "tags": {}, "refusals": {}, "known_hits": {}, "extra": {}}
    nt = set()
    samples = []
    violations = []
    herrs = []
    for r in recs:
        merged["evaluations"] += r["evaluations"]
        for fld in ("status", "tags", "refusals", "known_hits", "extra"):
            for k, v in r[fld].items():
                merged[fld][k] = merged[fld].get(k, 0) + v
        nt.update(r["nontrivial_keys"])
        samples += r["samples"]
        violations += r["violations"]
        herrs += r["harness_errors"]

    # extra deterministic checks run by the parent (witness corpus etc.)
    if hasattr(prop, "extra_checks"):
        for case, v in prop.extra_checks(args.tier, seed):
            merged["evaluations"] += 1
            merged["status"][v["status"]] = merged["status"].get(v["status"], 0) + 1
            if v["status"] == "violation":
                cls = prop.classify(case, v) if hasattr(prop, "classify") else None
                if cls in enabled:
                    merged["known_hits"][cls] = merged["known_hits"].get(cls, 0) + 1
                else:
                    violations.append({"case": case, "verdict": v})

    # 4. confirm violations in a fresh process, one per bucket
    confirmed = []
    nonrepro = []
    seen_b = set()
    for i, viol in enumerate(violations):
        b = json.dumps(viol["verdict"].get("bucket"), default=str)
        if b in seen_b:
            continue
        seen_b.add(b)
        path = os.path.join(run_dir, f"violation-{len(seen_b)}.json")
        with open(path, "w") as f:
            json.dump({"property": pid, "case": viol["case"], "verdict": viol["verdict"], "seed": seed,
                       "tier": args.tier}, f, indent=1, default=str)
        res = run_replay_subprocess(pid, path, args.tier)
        if res["status"] == "violation":
            if res["classifier"] in enabled:
                merged["known_hits"][res["classifier"]] = merged["known_hits"].get(res["classifier"], 0) + 1
                continue
            confirmed.append(path)
        else:
            nonrepro.append(path)

    # 5. evidence
    wall = time.time() - t0
    # a representative subset of samples: at most 6, distinct
    seen_s = set()
    out_samples = []
    for s in samples:
        k = json.dumps(s, sort_keys=True, default=str)
        if k not in seen_s:
            seen_s.add(k)
            out_samples.append(s)
        if len(out_samples) >= 6:
            break
    ev = {
        "property_id": pid,
        "tier": args.tier,
        "seed": seed,
        "level": "exploration",
        "coverage": {
            "evaluations": merged["evaluations"],
            "distinct_nontrivial": len(nt),
            "rule": prop.RULE,
            "samples": out_samples,
            "status_histogram": merged["status"],
            "class_histogram": dict(sorted(merged["tags"].items())),
            "refusals_by_bucket": merged["refusals"],
            "known_findings_hit": merged["known_hits"],
            "known_findings_enabled": enabled,
            "counters": merged["extra"],
            "shards": shards,
            "budget_per_shard": {"max_examples": bud["examples"], "generation_time_s": int(os.environ.get("VERIF_TIME_BUDGET") or bud.get("time_budget", 0)),
                                 "shrink_calls": bud.get("shrink_calls")},
            "shards_dead": dead,
            "harness_errors": len(herrs),
            "nonreproducible_in_fresh_process": len(nonrepro),
        },
        "assumptions": prop.ASSUMPTIONS,
        "wall_s": round(wall, 2),
        "violations": len(confirmed),
    }
    # evidence/ only ever holds runs against /repo itself; runs against a scratch copy (seeded changes, development) go to out/
    alt = os.environ.get("POLAR_REPO", "/repo") != "/repo" or os.environ.get("VERIF_EVIDENCE_DIR")
    evdir = os.environ.get("VERIF_EVIDENCE_DIR") or (os.path.join(OUT, "evidence-scratch") if alt else os.path.join(VERIF, "evidence"))
    os.makedirs(evdir, exist_ok=True)
    with open(os.path.join(evdir, f"{pid}.json"), "w") as f:
        json.dump(ev, f, indent=1, default=str)

    print(f"{pid} {args.tier} seed={seed}: {merged['evaluations']} cases, {len(nt)} distinct non-trivial, "
          f"status={merged['status']}, known={merged['known_hits']}, wall={wall:.0f}s")
    if herrs:
        print(f"harness errors: {len(herrs)} (first: {str(herrs[0]['detail'])[-600:]})")
    for pth in nonrepro:
        print(f"note: failure did not reproduce in a fresh process (history dependence, see C20): {pth}")
    if confirmed:
        for pth in confirmed:
            print(f"VIOLATION property={pid} replay={os.path.relpath(pth, VERIF)}")
        return 1
    decided = sum(v for k, v in merged["status"].items() if k in ("ok", "refusal", "violation"))
    if decided == 0 or len(herrs) > max(3, merged["evaluations"] // 20):
        print("harness error: no case reached a verdict or too many harness errors")
        return 2
    return 0


if __name__ == "__main__":
    if sys.argv[1] == "--worker":
        worker_main(sys.argv[2:])
    elif sys.argv[1] == "--replay-worker":
        sys.path.insert(0, VERIF)
        replay_main(sys.argv[2:])
    else:
        sys.exit(check_main(sys.argv[1:]))
