"""
Hypothesis strategies for loop programs (own AST, see lang.py).  Constructive: programs satisfy
Polar's documented restrictions by construction (finite variables in conditions, constant
probabilities, non-linear dependencies acyclic), so little is filtered.

Variable roles
  finite  variables a,b,c,d: each has a fixed domain D; every assignment yields a value in D
  numeric variables x,y,z,w (ordered): update of the i-th may be linear in itself, polynomial in
          finite variables and in numeric variables of lower index; in "lincyc" programs all numeric
          updates are linear and may mention any numeric variable (linear cycles)
  draw    variables u,v: assigned a single unconditioned draw (arguments of Sin/Cos/Exp, or noise)
Names avoid e, E, I, pi, n, t, oo and anything starting with "_" (CAS constants / Polar internals).
"""
from fractions import Fraction

from hypothesis import strategies as st

from . import lang as L

FINITE_NAMES = ["a", "b", "c", "d"]
NUMERIC_NAMES = ["x", "y", "z", "w"]
DRAW_NAMES = ["u", "v"]
SYM_NAMES = ["p", "q"]

DOMAINS = [
    [0, 1],
    [0, 1],
    [0, 1, 2],
    [-1, 1],
    [1, 2, 3],
    [0, 1, 2, 3],
    [-1, 0, 1],
    [0, 2],
    [0, 1],
    [0, 1, 2],
    [0, 1],
    ["0", "1/2", "1"],
]

BIG_DOMAINS = [[1, 2, 3, 4, 5, 6], [0, 1, 2, 3, 4, 5], [1, 2, 3, 4, 5, 6], [0, 1, 2, 3, 4, 5, 6]]

PROBS = ["1/2", "1/3", "1/4", "2/3", "3/4", "1/5", "1/10", "9/10"]
SMALL = [-3, -2, -1, 1, 2, 3]
COEFFS = ["1/2", "2", "-1", "1/3", "3", "-1/2", "3/2", "1/4", "-2"]


def F(x):
    return Fraction(x)


PROFILES = {
    # name: knobs
    "discrete": dict(cont=0.0, guard=0.25, sym=0.0, ifs=0.6, lincyc=0.15),
    "mixed": dict(cont=1.0, guard=0.2, sym=0.0, ifs=0.5, lincyc=0.1),
    "guarded": dict(cont=0.2, guard=1.0, sym=0.0, ifs=0.5, lincyc=0.1),
    "param": dict(cont=0.3, guard=0.2, sym=1.0, ifs=0.5, lincyc=0.1),
    "edge": dict(cont=0.2, guard=0.4, sym=0.1, ifs=1.0, lincyc=0.1, edge=True),
    # programs inside the README's documented class by construction (C18); sub-classes are drawn per program
    "inclass": dict(cont=0.4, guard=0.4, sym=0.15, ifs=0.7, lincyc=0.15, inclass=True, big=0.2),
}


class Ctx:
    def __init__(self, draw, knobs):
        self.draw = draw
        self.k = knobs
        self.fin = {}  # name -> domain (list of Fractions)
        self.num = []  # ordered numeric names
        self.drw = []  # draw variable names
        self.syms = []  # symbolic parameter names
        self.cont = False
        self.lincyc = False
        self.draw_fams = {}
        self.big = False  # "dice" program: large finite domains
        self.uses_counter = False  # the counter variable k is used (initialised to 0)
        self.prefer = set()  # condition variables of the enclosing if (preferred assignment targets in its branches)
        self.atoms = []  # atoms generated so far (for verbatim repetition)
        self.banned = set()  # variables that must not be assigned here (condition variables of an enclosing nested if)

    def b(self, p):
        """biased boolean"""
        if p <= 0:
            return False
        if p >= 1:
            return True
        # Hypothesis favours small integers: let the small values encode the more likely outcome
        r = self.draw(st.integers(0, 999))
        if p >= 0.5:
            return r < int(p * 1000)
        return r >= 1000 - int(p * 1000)

    def pick(self, xs):
        return self.draw(st.sampled_from(list(xs)))

    def integer(self, lo, hi):
        return self.draw(st.integers(lo, hi))


# ------------------------------------------------------------------ pieces


def prob_expr(c):
    """a constant probability, possibly symbolic"""
    if c.syms and c.b(0.6):
        s = c.pick(c.syms)
        return c.pick([["sub", L.num(1), ["sym", s]], ["sym", s], ["div", ["sym", s], "2"], ["sub", L.num(1), ["div", ["sym", s], "2"]]])
    if c.b(0.1):
        # a constant probability written as a sum or difference (top-level + / - inside the braces)
        return c.pick([["sub", L.num("1/2"), L.num("1/4")], ["add", L.num("1/4"), L.num("1/4")], ["sub", L.num(1), L.num("1/3")], ["sub", L.num("3/4"), L.num("1/2")]])
    return L.num(c.pick(PROBS))


def prob_vector(c, k):
    """k probabilities summing to 1 (returned as k-1 explicit + flag whether last is explicit)"""
    if k == 2:
        p = prob_expr(c)
        return [p]
    if c.syms and c.b(0.4):
        s = c.pick(c.syms)
        return [["div", ["sym", s], "2"], ["div", ["sym", s], "2"]][: k - 1] if k == 3 else [["div", ["sym", s], "3"]] * (k - 1)
    table = {3: [["1/2", "1/4"], ["1/3", "1/3"], ["1/5", "3/5"], ["1/10", "1/2"], ["3/10", "3/10"], ["1/5", "1/10"], ["4/5", "19/100"]],
             4: [["1/4", "1/4", "1/4"], ["1/2", "1/4", "1/8"], ["1/10", "2/10", "3/10"]]}
    return [L.num(x) for x in c.pick(table[k])]


def with_last(c, probs):
    """optionally make the last probability explicit"""
    if c.b(0.3):
        tot = ["num", "1"]
        e = tot
        for q in probs:
            e = ["sub", e, q]
        if all(q[0] == "num" for q in probs):
            e = L.num(1 - sum(F(q[1]) for q in probs))
        return probs + [e]
    return probs


def finite_rhs(c, f, allow_self=True):
    """an rhs whose value always lies in the domain of finite variable f"""
    D = c.fin[f]
    Ds = set(D)
    options = ["const", "choice"]
    if {F(0), F(1)} <= Ds:
        options.append("bern")
    ints = sorted(x for x in D if x.denominator == 1)
    runs = [(a, b) for a in ints for b in ints if a < b and all(F(i) in Ds for i in range(int(a), int(b) + 1))]
    if runs:
        options.append("dunif")
    if all(F(i) in Ds for i in range(3)) or Ds >= {F(0), F(1)}:
        options.append("cat")
    for g, Dg in c.fin.items():
        if g != f and set(Dg) <= Ds:
            options.append("copy")
            break
    if allow_self and all((1 - x) in Ds for x in D):
        options.append("flip")
    if allow_self and all((-x) in Ds for x in D):
        options.append("negate")
    prods = [(g, h) for g in c.fin for h in c.fin if g <= h and g != f and h != f
             and all(x * y in Ds for x in c.fin[g] for y in c.fin[h])]
    if prods:
        options.append("prod")
    kind = c.pick(options)
    if kind == "const":
        return ["expr", L.num(c.pick(D))]
    if kind == "choice":
        k = c.integer(2, min(3, max(2, len(D))))
        vals = [L.num(c.pick(D)) for _ in range(k)]
        return ["choice", vals, with_last(c, prob_vector(c, k))]
    if kind == "bern":
        return ["draw", "Bernoulli", [prob_expr(c)]]
    if kind == "dunif":
        a, b = c.pick(runs)
        return ["draw", "DiscreteUniform", [L.num(a), L.num(b)]]
    if kind == "cat":
        kmax = 1
        while F(kmax) in Ds:
            kmax += 1
        k = c.integer(2, min(kmax, 4))
        pv = prob_vector(c, k)
        last = ["num", "1"]
        for q in pv:
            last = ["sub", last, q]
        if all(q[0] == "num" for q in pv):
            last = L.num(1 - sum(F(q[1]) for q in pv))
        return ["draw", "Categorical", pv + [last]]
    if kind == "copy":
        g = c.pick([g for g, Dg in c.fin.items() if g != f and set(Dg) <= Ds])
        return ["expr", L.var(g)]
    if kind == "flip":
        return ["expr", ["sub", L.num(1), L.var(f)]]
    if kind == "negate":
        return ["expr", ["neg", L.var(f)]]
    if kind == "prod":
        g, h = c.pick(prods)
        return ["expr", ["mul", L.var(g), L.var(h)]]
    raise AssertionError(kind)


def small_const(c, nonzero=False):
    if c.b(0.7):
        v = c.pick(SMALL if nonzero else SMALL + [0])
        return L.num(v)
    return L.num(c.pick(COEFFS))


def coeff(c):
    if c.syms and c.b(0.3):
        return ["sym", c.pick(c.syms)]
    return small_const(c, nonzero=True)


def lower_term(c, i, maxdeg):
    """a monomial over finite variables, draw variables and numeric variables of index < i"""
    pool = [(v, "fin") for v in c.fin] + [(v, "drw") for v in c.drw] + [(v, "num") for v in c.num[:i]]
    if not pool:
        return L.num(c.pick(SMALL))
    deg = c.integer(1, maxdeg)
    e = None
    for _ in range(deg):
        v, _kind = c.pick(pool)
        e = L.var(v) if e is None else ["mul", e, L.var(v)]
    if deg == 1 and c.b(0.25):
        e = ["pow", e, c.integer(2, 3)]
    elif deg == 1 and c.b(0.1):
        e = ["pow", ["neg", e], 2]  # (-v)**2: a signed atom in parentheses as the base of a power
    return e


def numeric_poly(c, i):
    """right-hand polynomial for numeric variable i"""
    x = c.num[i]
    terms = []
    # self term
    r = c.integer(0, 9)
    if r <= 4:
        terms.append(L.var(x))
    elif r <= 7:
        terms.append(["mul", coeff(c), L.var(x)])
    # other terms
    if c.lincyc:
        for _ in range(c.integer(0, 2)):
            others = [v for v in c.num if v != x] + list(c.fin) + c.drw
            if others:
                v = c.pick(others)
                terms.append(["mul", coeff(c), L.var(v)] if c.b(0.6) else L.var(v))
    else:
        for _ in range(c.integer(0, 2)):
            tm = lower_term(c, i, 2)
            terms.append(["mul", coeff(c), tm] if c.b(0.5) else tm)
        if c.fin and terms and not c.k.get("inclass") and c.b(0.15):
            # finite coefficient on the self term: f*x  (linear in x for Polar)
            f = c.pick(list(c.fin))
            terms[0] = ["mul", L.var(f), terms[0]] if terms[0][0] in ("var", "mul") and x in L.expr_vars(terms[0]) else terms[0]
    if c.b(0.5) or not terms:
        terms.append(small_const(c))
    e = terms[0]
    for tm in terms[1:]:
        e = ["sub", e, tm] if c.b(0.25) else ["add", e, tm]
    return e


def cont_draw(c, i=None):
    """continuous draw, possibly with location/scale depending on lower variables"""
    fam = c.pick(["Normal", "Uniform", "Laplace", "DistExp", "Gamma", "Beta"])
    last = getattr(c, "last_family", None)
    if last is not None and c.b(0.4):
        fam = last  # several draws from one family with different parameters in one program
    c.last_family = fam
    loc = None
    if i is not None and c.b(0.6):
        pool = list(c.fin) + c.num[:i] + ([c.num[i]] if c.b(0.5) else [])
        if pool:
            loc = L.var(c.pick(pool))
            if c.b(0.35):
                # a compound location (sum / difference): the rewriting into a fixed draw plus arithmetic has to keep it together
                loc = c.pick([["sub", loc, L.num(1)], ["add", loc, L.num("1/2")], ["sub", ["mul", L.num(2), loc], L.num(1)]])
    if loc is not None:
        fam = c.pick(["Uniform", "Normal", "Laplace"])  # the families whose location may depend on variables
    if fam == "Normal":
        mu = loc if loc is not None else L.num(c.pick([0, 0, 1, -1, 2, "1/2"]))
        return ["draw", "Normal", [mu, L.num(c.pick([1, 1, 4, "1/4", 9, 2]))]]
    if fam == "Uniform":
        if loc is not None:
            return ["draw", "Uniform", [loc, ["add", loc, L.num(c.pick([1, 2, "1/2"]))]]]
        a = F(c.pick([0, 0, -1, 1, "1/2"]))
        return ["draw", "Uniform", [L.num(a), L.num(a + F(c.pick([1, 2, "1/2", 3])))]]
    if fam == "Laplace":
        mu = loc if loc is not None else L.num(c.pick([0, 0, 1, -2]))
        return ["draw", "Laplace", [mu, L.num(c.pick([1, 2, "1/2"]))]]
    if fam == "DistExp":
        return ["draw", "DistExp", [L.num(c.pick([1, 2, "1/2", 3]))]]
    if fam == "Gamma":
        return ["draw", "Gamma", [L.num(c.pick([1, 2, 3, "1/2", "3/2"])), L.num(c.pick([1, 2, "1/2"]))]]
    if fam == "Beta":
        ps = [L.num(c.pick([1, 2, 3, "1/2"])), L.num(c.pick([1, 2, 3, "1/2"]))]
        if c.b(0.3):
            ps.append(L.num(c.pick([2, 3, "1/2"])))
        return ["draw", "Beta", ps]
    raise AssertionError


def numeric_rhs(c, i):
    r = c.integer(0, 9)
    if c.cont and not c.lincyc and r in (3, 4):
        return cont_draw(c, i)  # programs with continuous draws: a fifth of the numeric assignments are draws
    if r <= 5:
        return ["expr", numeric_poly(c, i)]
    if r <= 7:
        k = c.integer(2, 3)
        return ["choice", [numeric_poly(c, i) for _ in range(k)], with_last(c, prob_vector(c, k))]
    if c.cont and not c.lincyc:
        return cont_draw(c, i)
    return ["expr", numeric_poly(c, i)]


def atom(c):
    """a comparison over finite variables; an earlier atom of the same program is repeated verbatim in a quarter of the
    cases (condition aliases and abstractions are keyed by the atom, so repetition after a reassignment matters)"""
    import copy

    if c.atoms and c.b(0.25):
        return copy.deepcopy(c.pick(c.atoms))
    a = _fresh_atom(c)
    c.atoms.append(a)
    return a


def _fresh_atom(c):
    if c.big and len(c.fin) >= 2 and c.b(0.6):
        f, g = list(c.fin)[:2]
        tot = int(max(c.fin[f]) + max(c.fin[g]))
        return ["cmp", ["add", L.var(f), L.var(g)], c.pick(["==", ">=", "<", "<="]), L.num(c.integer(2, max(2, tot - 1)))]
    f = c.pick(list(c.fin))
    D = c.fin[f]
    r = c.integer(0, 9)
    cop = c.pick(["==", "==", "<", ">", "<=", ">="])
    if r <= 5:
        ints = [x for x in D if x.denominator == 1] or [F(0)]
        if c.b(0.4 if c.k.get("nonint_cond") else 0.03):
            val = c.pick(D) if c.k.get("nonint_cond") else c.pick(D) + F("1/2")  # non-integer right-hand side: measured class (Polar refuses it, C18)
        elif c.b(0.85):
            val = c.pick(ints)
        else:
            val = c.pick(ints) + c.pick([1, -1])
        return ["cmp", L.var(f), cop, L.num(val)]
    if r <= 8 and len(c.fin) >= 2:
        g = c.pick([g for g in c.fin if g != f])
        if c.b(0.5):
            return ["cmp", ["add", L.var(f), L.var(g)], cop, L.num(c.pick([0, 1, 2]))]
        return ["cmp", L.var(f), cop, L.var(g)]
    return ["cmp", ["mul", L.num(2), L.var(f)], cop, L.num(c.pick([0, 1, 2, 3]))]


def condition(c, depth=0):
    r = c.integer(0, 9)
    if depth >= 2 or r <= 4:
        return atom(c)
    if r <= 5:
        return ["not", condition(c, depth + 1)]
    first = condition(c, depth + 1)
    if first[0] == "cmp" and first[1][0] == "var" and c.b(0.5):
        # second operand over the same variable (overlapping or complementary sides)
        f = first[1][1]
        ints = [x for x in c.fin[f] if x.denominator == 1] or [F(0)]
        second = ["cmp", L.var(f), c.pick(["==", "<", ">", "<=", ">="]), L.num(c.pick(ints))]
        if c.b(0.3):
            second = ["not", second]
    else:
        second = condition(c, depth + 1)
    return ["and" if r <= 7 else "or", first, second]


def simple_stmt(c):
    kinds = []
    fin_ok = [f for f in c.fin if f not in c.banned]
    if fin_ok:
        kinds += ["fin"] * 3
    if c.num:
        kinds += ["num"] * 5
    if len(c.num) >= 2 and c.lincyc:
        kinds += ["simult"] * 2
    if len(fin_ok) + len(c.num) >= 2 and not c.banned:
        kinds += ["simult"]
    if not kinds:
        c.uses_counter = True
        return ["assign", "k", ["expr", ["add", L.var("k"), L.num(1)]]]
    kind = c.pick(kinds)
    pref = [f for f in fin_ok if f in c.prefer]
    if pref and c.b(0.45):
        # inside a branch: reassign a variable that one of the if's conditions tests (old-value copies, branch negations)
        f = c.pick(pref)
        return ["assign", f, finite_rhs(c, f)]
    if kind == "fin":
        f = c.pick(fin_ok)
        return ["assign", f, finite_rhs(c, f)]
    if kind == "num":
        i = c.integer(0, len(c.num) - 1)
        return ["assign", c.num[i], numeric_rhs(c, i)]
    # simultaneous assignment
    if c.lincyc and len(c.num) >= 2 and c.b(0.7):
        vs = c.draw(st.permutations(c.num))[: c.integer(2, len(c.num))]
        return ["simult", list(vs), [["expr", numeric_poly(c, c.num.index(v))] for v in vs]]
    pool = list(c.fin) + c.num
    vs = c.draw(st.permutations(pool))[: c.integer(2, min(3, len(pool)))]
    rhss = []
    for v in vs:
        if v in c.fin:
            rhss.append(finite_rhs(c, v))
        else:
            rhss.append(["expr", numeric_poly(c, c.num.index(v))])
    return ["simult", list(vs), rhss]


def statement(c, depth):
    if c.fin and depth < 2 and c.b(c.k["ifs"] * (0.4 if depth == 0 else 0.2)):
        nb = c.pick([1, 1, 2, 2, 3])
        conds = [condition(c) for _ in range(nb)]
        old_banned = c.banned
        # a nested if (or any if below a guard-free top level) that reassigns its own condition variables is
        # the "edge" class (Polar refuses it today, see known finding C18-F3): generated rarely outside profile edge
        nested = depth >= 1
        if nested and not c.b(0.5 if c.k.get("edge") else 0.02):
            cv = set()
            for cd in conds:
                L.cond_vars(cd, cv)
            c.banned = c.banned | cv
        old_prefer = c.prefer
        cvs = set()
        for cd in conds:
            L.cond_vars(cd, cvs)
        c.prefer = cvs - c.banned
        branches = [[cd, block(c, depth + 1, c.pick([1, 2, 2, 3]))] for cd in conds]
        els = block(c, depth + 1, c.pick([1, 2, 2, 3])) if c.b(0.45) else None
        c.banned = old_banned
        c.prefer = old_prefer
        return ["if", branches, els]
    return simple_stmt(c)


def block(c, depth, k):
    out = [statement(c, depth) for _ in range(k)]
    if depth == 0 and c.fin and c.b(0.2):
        # the same (non-reduced) atom tested twice with a reassignment of one of its variables in between
        import copy

        a = _compound_atom(c)
        vs = sorted(L.cond_vars(a))
        v = c.pick(vs)
        old = c.banned
        c.banned = c.banned | {v}
        count1 = ["assign", "k", ["expr", ["add", L.var("k"), L.num(1)]]]
        count2 = ["assign", "k", ["expr", ["add", L.var("k"), L.num(2)]]]
        c.uses_counter = True
        first = ["if", [[copy.deepcopy(a), [count1 if c.b(0.6) else simple_stmt(c)]]], None]
        second = ["if", [[copy.deepcopy(a), [count2 if c.b(0.6) else simple_stmt(c)]]], [simple_stmt(c)] if c.b(0.3) else None]
        c.banned = old
        out += [first, ["assign", v, finite_rhs(c, v, allow_self=False)], second]
    if depth == 0 and c.fin and c.b(0.15):
        # a later branch reassigns a variable that only an earlier branch's condition tests, and goes on afterwards
        v = c.pick(list(c.fin))
        D = c.fin[v]
        a1 = ["cmp", L.var(v), c.pick(["==", "==", "<", ">"]), L.num(c.pick([x for x in D if x.denominator == 1] or [F(0)]))]
        c.uses_counter = True
        cnt = lambda i: ["assign", "k", ["expr", ["add", L.var("k"), L.num(i)]]]
        later = [["assign", v, finite_rhs(c, v, allow_self=False)], cnt(1)]
        others = [w for w in c.fin if w != v]
        if others and c.b(0.5):
            w = c.pick(others)
            a2 = ["cmp", L.var(w), "==", L.num(c.pick([x for x in c.fin[w] if x.denominator == 1] or [F(0)]))]
            out.append(["if", [[a1, [cnt(2)]], [a2, later]], [cnt(3)] if c.b(0.5) else None])
        else:
            out.append(["if", [[a1, [cnt(2)]]], later])
    return out


def _compound_atom(c):
    f = c.pick(list(c.fin))
    cop = c.pick(["==", ">", "<", ">=", "<="])
    if len(c.fin) >= 2 and c.b(0.6):
        g = c.pick([g for g in c.fin if g != f])
        return ["cmp", ["add", L.var(f), L.var(g)], cop, L.num(c.pick([0, 1, 2]))]
    return ["cmp", ["mul", L.num(2), L.var(f)], cop, L.num(c.pick([0, 1, 2]))]


def init_block(c, uninit_ok):
    out = []
    for f, D in c.fin.items():
        if c.b(0.15) and {F(0), F(1)} <= set(D):
            out.append(["assign", f, ["draw", "Bernoulli", [prob_expr(c)]]])
        else:
            out.append(["assign", f, ["expr", L.num(c.pick(D))]])
    for x in c.num:
        r = c.integer(0, 19)
        if uninit_ok and r == 0:
            continue  # left uninitialised -> Polar's x0 symbol
        if c.syms and r <= 3:
            out.append(["assign", x, ["expr", ["sym", c.pick(c.syms)]]])
        elif r <= 16:
            out.append(["assign", x, ["expr", small_const(c)]])
        else:
            out.append(["assign", x, ["choice", [small_const(c), small_const(c)], [L.num(c.pick(PROBS))]]])
    order = c.draw(st.permutations(out)) if len(out) > 1 and c.b(0.3) else out
    return list(order)


def draw_var_stmts(c):
    out = []
    for u in c.drw:
        fam = cont_draw(c) if c.cont else ["draw", c.pick(["Bernoulli", "DiscreteUniform"]), None]
        if fam[2] is None:
            fam = ["draw", "Bernoulli", [prob_expr(c)]] if fam[1] == "Bernoulli" else ["draw", "DiscreteUniform", [L.num(c.pick([0, 1, -1])), L.num(c.pick([2, 3]))]]
        out.append(["assign", u, fam])
    return out


def _collect_cond_vars(stmts, acc):
    for s in stmts:
        if s[0] == "if":
            for cd, b in s[1]:
                L.cond_vars(cd, acc)
                _collect_cond_vars(b, acc)
            if s[2] is not None:
                _collect_cond_vars(s[2], acc)


@st.composite
def programs(draw, profile="discrete", uninit_ok=True, min_body=1, max_body=4):
    knobs = PROFILES[profile]
    c = Ctx(draw, knobs)
    c.cont = c.b(knobs["cont"])
    if c.b(knobs["sym"]):
        c.syms = SYM_NAMES[: c.integer(1, 2)]
    nf = c.integer(0 if knobs["guard"] < 1 else 1, 3)
    nn = c.integer(0 if nf else 1, 3)
    big = c.big = c.b(knobs.get("big", 0.08))  # "dice" programs: larger domains (products of value-set sizes beyond the typer's bound of 25)
    for f in FINITE_NAMES[:nf]:
        c.fin[f] = [F(x) for x in (c.pick(BIG_DOMAINS) if big else c.pick(DOMAINS))]
    c.num = NUMERIC_NAMES[:nn]
    c.lincyc = nn >= 2 and c.b(knobs["lincyc"])
    if not c.lincyc and c.b(0.35):
        c.drw = DRAW_NAMES[: c.integer(1, 2)]
    if knobs.get("inclass"):
        # sub-classes named by C18, drawn per program (recorded in meta["subclasses"])
        knobs = dict(knobs)
        c.k = knobs
        sub = []
        if c.b(0.15):
            knobs["const_in_cond"] = True
            sub.append("const_in_cond")
        if c.b(0.15):
            knobs["edge"] = True
            sub.append("nested_own_condition_variable")
        if c.b(0.15) and c.fin:
            f0 = next(iter(c.fin))
            c.fin[f0] = [F(x) for x in ["0", "1/2", "1"]]
            knobs["nonint_cond"] = True
            sub.append("non_integer_finite_values")
        c.subclasses = sub
        uninit_ok = False
    body = draw_var_stmts(c) + block(c, 0, c.integer(min_body, max_body))
    locdraw = False
    if c.cont and not c.lincyc and (c.num or c.fin) and c.b(0.4):
        # a draw whose location depends on a program variable (rewritten by DistTransformer into a fixed draw plus arithmetic)
        base_v = L.var(c.pick(c.num + list(c.fin)))
        loc = c.pick([base_v, ["sub", base_v, L.num(1)], ["add", base_v, L.num("1/2")], ["sub", ["mul", L.num(2), base_v], L.num(1)]])
        fam = c.pick(["Uniform", "Normal", "Laplace"])
        if fam == "Uniform":
            rhs = ["draw", "Uniform", [loc, ["add", loc, L.num(c.pick([1, 2, "1/2"]))]]]
        elif fam == "Normal":
            rhs = ["draw", "Normal", [loc, L.num(c.pick([1, 4, "1/4"]))]]
        else:
            rhs = ["draw", "Laplace", [loc, L.num(c.pick([1, 2, "1/2"]))]]
        body.insert(c.integer(0, len(body)), ["assign", "g", rhs])
        locdraw = True
    lag = False
    if not c.lincyc and c.b(0.2):
        # a value handed down a chain of copies before it is accumulated (ls = ls + la; la = lb; lb = ...): the closed form of ls is a sum
        # over closed forms that are valid from different iterations on
        srcs = [["expr", ["add", L.var("lb"), L.num(1)]], ["choice", [L.num(1), L.num(3)], [L.num("1/2")]], ["expr", ["mul", L.num(2), L.var("lb")]]]
        srcs += [["expr", L.var(v)] for v in list(c.fin)[:1] + c.drw[:1]]
        chain = [["assign", "ls", ["expr", ["add", L.var("ls"), L.var("la")]]], ["assign", "la", ["expr", L.var("lb")]], ["assign", "lb", c.pick(srcs)]]
        body = body + chain if c.b(0.7) else chain + body
        lag = True
    if c.big:
        # the dice are thrown at the start of the iteration, conditions look at their sum
        for f, D in c.fin.items():
            if c.b(0.7):
                body.insert(0, ["assign", f, ["draw", "DiscreteUniform", [L.num(min(D)), L.num(max(D))]]])
    guard = ["true"]
    if c.fin and c.b(knobs["guard"]):
        guard = condition(c, depth=1)
    # every variable that occurs in a condition is assigned somewhere in the body (a loop constant in a
    # condition is folded to a number and refused by Polar today: C18's class, generated there on purpose)
    if not knobs.get("const_in_cond"):
        cv = L.stmts_symbols(body, set(), ("var",)) if False else set()
        _collect_cond_vars(body, cv)
        L.cond_vars(guard, cv)
        assigned = L.stmts_assigned(body)
        for f in sorted(cv):
            if f not in assigned and f in c.fin:
                body.insert(c.integer(0, len(body)), ["assign", f, finite_rhs(c, f)])
    init = init_block(c, uninit_ok)
    # "previous value" copy: h = v placed somewhere in the body, h initialised like v (the pattern prev = pos)
    shadow = None
    pool = c.drw + c.drw + c.num
    if pool and c.b(0.2):
        shadow = c.pick(pool)
        first_assign = [i for i, s_ in enumerate(body) if s_[0] == "assign" and s_[1] == shadow]
        pos = c.integer(0, first_assign[0]) if first_assign and c.b(0.7) else c.integer(0, len(body))
        body.insert(pos, ["assign", "h", ["expr", L.var(shadow)]])
    # draw variables are initialised too (sometimes), so that goals at n=0 are defined
    for u in c.drw:
        if knobs.get("inclass") or c.b(0.8):
            init.append(["assign", u, ["expr", L.num(0)]])
    if c.uses_counter:
        init.append(["assign", "k", ["expr", L.num(0)]])
    if locdraw:
        init.append(["assign", "g", ["expr", L.num(0)]])
    if lag:
        init += [["assign", "ls", ["expr", L.num(0)]], ["assign", "la", ["expr", L.num(c.pick([2, 5, -1]))]], ["assign", "lb", ["expr", L.num(c.pick([3, -2, 1]))]]]
    if shadow is not None:
        iv = [st_ for st_ in init if st_[0] == "assign" and st_[1] == shadow and st_[2][0] == "expr" and st_[2][1][0] == "num"]
        init.append(["assign", "h", ["expr", iv[0][2][1] if iv else L.num(0)]])
    prog = {"types": {}, "init": init, "guard": guard, "body": body}
    meta = {"fin": {f: [L.fs(x) for x in D] for f, D in c.fin.items()}, "num": c.num, "drw": c.drw,
            "syms": c.syms, "lincyc": c.lincyc, "profile": profile, "subclasses": getattr(c, "subclasses", [])}
    return prog, meta


@st.composite
def goals_for(draw, prog, meta, max_goals=3, maxdeg=3):
    assigned = sorted(L.stmts_assigned(prog["body"]))
    pool = assigned if assigned else sorted(L.stmts_assigned(prog["init"]))
    k = draw(st.integers(1, max_goals))
    out = []
    if "k" in pool and draw(st.integers(0, 2)) > 0:
        out.append({"k": 1})  # the counter of the directed templates observes which branches ran
    if "ls" in pool and draw(st.integers(0, 2)) > 0:
        out.append({"ls": 1})  # the accumulator at the end of a chain of copies
    for _ in range(k):
        deg = draw(st.integers(1, maxdeg))
        mono = {}
        for _ in range(deg):
            v = draw(st.sampled_from(pool))
            mono[v] = mono.get(v, 0) + 1
        if mono not in out:
            out.append(mono)
    return out


@st.composite
def param_points(draw, prog, k=2):
    """rational values for symbolic parameters: probabilities strictly inside (0, 1/2] etc."""
    syms = sorted(L.program_symbols(prog))
    pts = []
    for _ in range(k):
        env = {}
        for s in syms:
            env[s] = draw(st.sampled_from(["1/2", "1/3", "1/4", "2/5", "1/5", "3/7", "2/7"]))
        pts.append(env)
    return pts
