"""
Reading Polar's program objects back into the own AST (lib/lang.py), and taking snapshots after every
normalisation pass without touching the repository (the harness wraps Transformer.execute of the classes
that the real normalize_program instantiates).  Only field *structure* is read; meaning comes from refsem.
"""
import copy
from fractions import Fraction

from . import lang as L
from .refsem import OracleGiveUp


def expr_to_ast(e, variables):
    """symengine / sympy expression -> own expr AST.  Symbols in `variables` are program variables, others parameters."""
    import sympy

    e = sympy.sympify(e)
    return _conv(e, variables)


def _conv(e, variables):
    import sympy

    if e.is_Rational:
        return ["num", L.fs(Fraction(int(e.p), int(e.q)))]
    if e.is_Float:
        return ["num", L.fs(Fraction(str(e)))]
    if e.is_Symbol:
        return ["var", e.name] if e.name in variables else ["sym", e.name]
    if e.is_Add:
        args = list(e.args)
        r = _conv(args[0], variables)
        for a in args[1:]:
            r = ["add", r, _conv(a, variables)]
        return r
    if e.is_Mul:
        args = list(e.args)
        r = _conv(args[0], variables)
        for a in args[1:]:
            r = ["mul", r, _conv(a, variables)]
        return r
    if e.is_Pow:
        b, x = e.args
        if x.is_Integer and x >= 0:
            return ["pow", _conv(b, variables), int(x)]
        if x.is_Integer and x < 0 and b.is_Rational:
            return ["num", L.fs(Fraction(int(b.p), int(b.q)) ** int(x))]
        # rational powers of rationals that are rational (4**(1/2)) are evaluated by sympy itself; what is left is irrational
        raise OracleGiveUp(f"expression {e} not polynomial with rational coefficients")
    raise OracleGiveUp(f"expression {e} not convertible")


def cond_to_ast(c, variables):
    n = type(c).__name__
    if n == "TrueCond":
        return ["true"]
    if n == "FalseCond":
        return ["false"]
    if n == "Atom":
        return ["cmp", expr_to_ast(c.poly1, variables), c.cop, expr_to_ast(c.poly2, variables)]
    if n == "Not":
        return ["not", cond_to_ast(c.cond, variables)]
    if n == "And":
        return ["and", cond_to_ast(c.cond1, variables), cond_to_ast(c.cond2, variables)]
    if n == "Or":
        return ["or", cond_to_ast(c.cond1, variables), cond_to_ast(c.cond2, variables)]
    raise OracleGiveUp(f"condition class {n}")


def dist_to_rhs(d, variables):
    n = type(d).__name__
    ex = lambda x: expr_to_ast(x, variables)
    if n == "Bernoulli":
        return ["draw", "Bernoulli", [ex(d.p)]]
    if n == "Categorical":
        return ["draw", "Categorical", [ex(p) for p in d.probabilities]]
    if n == "DiscreteUniform":
        return ["draw", "DiscreteUniform", [ex(d.values[0]), ex(d.values[-1])]]
    if n == "Normal":
        return ["draw", "Normal", [ex(d.mu), ex(d.sigma2)]]
    if n == "Uniform":
        return ["draw", "Uniform", [ex(d.a), ex(d.b)]]
    if n == "Laplace":
        return ["draw", "Laplace", [ex(d.mu), ex(d.b)]]
    if n == "Exponential":
        return ["draw", "DistExp", [ex(d.lamb)]]
    if n == "Gamma":
        return ["draw", "Gamma", [ex(d.k), ex(d.theta)]]
    if n == "Beta":
        ps = [ex(d.a), ex(d.b)]
        if str(d.scale) != "1":
            ps.append(ex(d.scale))
        return ["draw", "Beta", ps]
    raise OracleGiveUp(f"distribution {n} not supported by the oracle")


def assign_to_ast(a, variables):
    n = type(a).__name__
    var = str(a.variable)
    if n == "PolyAssignment":
        if len(a.polynomials) == 1:
            rhs = ["expr", expr_to_ast(a.polynomials[0], variables)]
        else:
            rhs = ["choice", [expr_to_ast(p, variables) for p in a.polynomials], [expr_to_ast(p, variables) for p in a.probabilities]]
    elif n == "DistAssignment":
        rhs = dist_to_rhs(a.distribution, variables)
    elif n == "FunctionalAssignment":
        rhs = ["func", a.func, str(a.argument)]
    else:
        raise OracleGiveUp(f"assignment class {n}")
    cond = cond_to_ast(a.condition, variables)
    if cond == ["true"]:
        return ["assign", var, rhs]
    return ["gassign", var, rhs, cond, str(a.default)]


def stmts_to_ast(stmts, variables):
    out = []
    for s in stmts:
        if type(s).__name__ == "IfStatem":
            branches = [[cond_to_ast(c, variables), stmts_to_ast(b, variables)] for c, b in zip(s.conditions, s.branches)]
            els = stmts_to_ast(s.else_branch, variables) if s.else_branch else None
            out.append(["if", branches, els])
        else:
            out.append(assign_to_ast(s, variables))
    return out


def _all_assigned(stmts, acc):
    for s in stmts:
        if type(s).__name__ == "IfStatem":
            for b in s.branches:
                _all_assigned(b, acc)
            if s.else_branch:
                _all_assigned(s.else_branch, acc)
        else:
            acc.add(str(s.variable))
    return acc


def program_to_ast(p, extra_variables=()):
    variables = set(extra_variables)
    _all_assigned(p.initial, variables)
    _all_assigned(p.loop_body, variables)
    variables |= {str(v) for v in getattr(p, "variables", set())}
    return {
        "types": {},
        "init": stmts_to_ast(p.initial, variables),
        "guard": cond_to_ast(p.loop_guard, variables),
        "body": stmts_to_ast(p.loop_body, variables),
    }


class PassRecorder:
    """context manager: records a deep copy of the program returned by every Transformer.execute during normalize_program"""

    def __init__(self):
        self.snaps = []  # (pass class name, Program copy)
        self._patched = []

    def __enter__(self):
        import program.transformer as T

        names = ["LoopGuardTransformer", "DistTransformer", "IfTransformer", "MultiAssignTransformer", "ConditionsReducer",
                 "ConstantsTransformer", "UpdateInfoTransformer", "TypeInferer", "ConditionsNormalizer", "ConditionsToArithm"]
        rec = self

        for nm in names:
            cls = getattr(T, nm)
            orig = cls.execute

            def make(orig, nm):
                def wrapped(self, program):
                    out = orig(self, program)
                    # nested calls (ConditionsNormalizer calls UpdateInfoTransformer) are recorded as well; harmless
                    rec.snaps.append((nm, copy.deepcopy(out)))
                    return out

                return wrapped

            cls.execute = make(orig, nm)
            self._patched.append((cls, orig))
        return self

    def __exit__(self, *a):
        for cls, orig in self._patched:
            cls.execute = orig
        return False
