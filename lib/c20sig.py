"""
Signature of one analysis, comparable across processes "up to the names of generated auxiliary symbols" (C20).
Run as a script it performs exactly one analysis in a fresh process:  python -m lib.c20sig  < request.json  > signature.json
"""
import json
import re
import sys
from fractions import Fraction


def canonical_text(s):
    """rename generated names (_old12, _t3, _x_1, _u7, ...) by order of first occurrence"""
    mapping = {}

    def rep(m):
        name = m.group(0)
        if name not in mapping:
            stem = re.sub(r"\d+$", "", name)
            mapping[name] = f"{stem}#{len(mapping)}"
        return mapping[name]

    return re.sub(r"_[A-Za-z_]*\d+", rep, s)


def canonical_types(program):
    """inferred types as a map canonical variable name -> sorted value list (names canonical by first occurrence in the printed normal form)"""
    from program.type import Finite

    text = str(program)
    mapping = {}
    for m in re.finditer(r"_[A-Za-z_]*\d+", text.split("end\n", 1)[-1] if text.startswith("types") else text):
        name = m.group(0)
        if name not in mapping:
            mapping[name] = f"{re.sub(r'[0-9]+$', '', name)}#{len(mapping)}"
    out = {}
    for v, t in program.typedefs.items():
        if isinstance(t, Finite):
            out[mapping.get(str(v), str(v))] = sorted(str(x) for x in t.values)
    return out


def analysis_signature(req):
    """
    req = {"kind": "goals"|"invariants"|"sensitivity", "text": ..., "goals": [goal strings], "settings": {...}, "param": "p"}
    returns a JSON-able dict
    """
    from lib import polar_driver as pd
    import sympy

    out = {"goals": {}, "program": None, "error": None, "invariants": None}
    try:
        with pd.time_limit(req.get("time_limit", 60)):
            an = pd.Analysis(req["text"], req.get("settings") or {})
            out["program"] = canonical_types(an.program)
            ga = an.goals_action()
            from inputparser import GoalParser, MOMENT, CUMULANT, CENTRAL

            closed_forms = {}
            for g in req["goals"]:
                try:
                    gt, gd = GoalParser.parse(g)
                    if req["kind"] == "sensitivity":
                        from recurrences import DiffRecBuilder
                        from symengine.lib.symengine_wrapper import Symbol as SES
                        from cli.common import get_moment

                        drb = DiffRecBuilder(an.program, SES(req["param"]))
                        res, exact = get_moment(gd[0], {}, drb, an.cli_args, an.program)
                    elif gt == MOMENT:
                        res, exact = ga.handle_moment_goal(gd)
                    elif gt == CUMULANT:
                        res, exact = ga.handle_cumulant_goal(gd)
                    elif gt == CENTRAL:
                        res, exact = ga.handle_central_moment_goal(gd)
                    else:
                        raise ValueError("goal kind")
                    closed_forms[g] = res
                    vals = []
                    free = sorted(str(s) for s in sympy.sympify(res).free_symbols if str(s) != "n")
                    subs = {name: Fraction(3 + i, 7) for i, name in enumerate(free)}
                    for n in range(6):
                        try:
                            v = pd.eval_closed_form(res, n, subs)
                            vals.append(str(v) if isinstance(v, Fraction) else str(sympy.N(v, 25)))
                        except ValueError:
                            vals.append("undefined")
                    out["goals"][g] = {"values": vals, "exact": bool(exact), "symbols": [canonical_text(x) for x in free]}
                except pd.CaseTimeout:
                    raise
                except Exception as e:
                    out["goals"][g] = {"error": pd.refusal_bucket(e)}
            if req["kind"] == "invariants" and closed_forms:
                from invariants import InvariantIdeal

                try:
                    ids = {}
                    for i, (g, cf) in enumerate(sorted(closed_forms.items())):
                        ids[f"gg{i}"] = cf
                    basis = InvariantIdeal(ids).compute_basis()
                    syms = [sympy.Symbol(f"gg{i}") for i in range(len(ids))]
                    if basis:
                        G = sympy.groebner(list(basis), *syms, order="grevlex", domain=sympy.QQ)
                        out["invariants"] = sorted(str(sympy.Poly(p, *syms).monic().as_expr()) for p in G.exprs)
                    else:
                        out["invariants"] = []
                except pd.CaseTimeout:
                    raise
                except Exception as e:
                    out["invariants"] = {"error": pd.refusal_bucket(e)}
    except pd.CaseTimeout:
        out["error"] = "time_limit"
    except Exception as e:
        out["error"] = pd.refusal_bucket(e)
    return out


if __name__ == "__main__":
    import os

    sys.path.insert(0, os.path.dirname(os.path.dirname(os.path.abspath(__file__))))
    req = json.load(sys.stdin)
    real_stdout = sys.stdout
    sys.stdout = sys.stderr
    sig = analysis_signature(req)
    real_stdout.write("C20SIG " + json.dumps(sig) + "\n")
