"""
Independent reference facts about the ten distribution families: textbook raw moments (exact), densities / pmfs
written from their definitions, supports, cf / mgf by quadrature or finite sums, mgf domains.
Used by C08, C12, C13.  No Polar code, no sympy.
"""
from fractions import Fraction
from math import comb, factorial

import mpmath

from .refsem import family_moment


def F(x):
    return Fraction(str(x)) if not isinstance(x, Fraction) else x


def to_family(name, params):
    """(Polar name, [Fraction params]) -> refsem family tuple or discrete pmf"""
    p = [F(x) for x in params]
    if name == "Normal":
        return ("normal", p[0], p[1])
    if name == "Uniform":
        return ("uniform", p[0], p[1])
    if name == "Laplace":
        return ("laplace", p[0], p[1])
    if name == "DistExp":
        return ("exponential", p[0])
    if name == "Gamma":
        return ("gamma", p[0], p[1])
    if name == "Beta":
        return ("beta", p[0], p[1]) if len(p) == 2 else ("beta_scaled", p[0], p[1], p[2])
    if name == "TruncNormal":
        return ("truncnormal", p[0], p[1], p[2], p[3])
    if name == "Bernoulli":
        return ("pmf", ((Fraction(0), 1 - p[0]), (Fraction(1), p[0])))
    if name == "Categorical":
        return ("pmf", tuple((Fraction(i), q) for i, q in enumerate(p)))
    if name == "DiscreteUniform":
        n = int(p[1] - p[0]) + 1
        return ("pmf", tuple((p[0] + i, Fraction(1, n)) for i in range(n)))
    raise ValueError(name)


def is_discrete(fam):
    return fam[0] == "pmf"


def exact_moment(fam, k):
    """exact k-th raw moment (Fraction); None for TruncNormal (no closed rational form)"""
    if fam[0] == "pmf":
        return sum(q * v ** k for v, q in fam[1])
    if fam[0] == "beta_scaled":
        return fam[3] ** k * family_moment(("beta", fam[1], fam[2]), k)
    if fam[0] == "truncnormal":
        return None
    return family_moment(fam, k)


def support(fam):
    """(lo, hi) with None for infinite; or list of atoms for discrete"""
    n = fam[0]
    if n == "pmf":
        return [v for v, q in fam[1] if q != 0]
    if n in ("normal", "laplace"):
        return (None, None)
    if n == "uniform":
        return (fam[1], fam[2])
    if n in ("exponential", "gamma"):
        return (Fraction(0), None)
    if n == "beta":
        return (Fraction(0), Fraction(1))
    if n == "beta_scaled":
        return (Fraction(0), fam[3])
    if n == "truncnormal":
        return (fam[3], fam[4])
    raise ValueError(n)


def _mp(x):
    return mpmath.mpf(x.numerator) / mpmath.mpf(x.denominator)


def density(fam):
    """density function on mpf written from the definition, and the integration breakpoints"""
    n = fam[0]
    if n == "normal":
        mu, var = _mp(fam[1]), _mp(fam[2])
        return (lambda x: mpmath.exp(-((x - mu) ** 2) / (2 * var)) / mpmath.sqrt(2 * mpmath.pi * var)), [-mpmath.inf, mu, mpmath.inf]
    if n == "uniform":
        a, b = _mp(fam[1]), _mp(fam[2])
        return (lambda x: 1 / (b - a)), [a, b]
    if n == "laplace":
        mu, b = _mp(fam[1]), _mp(fam[2])
        return (lambda x: mpmath.exp(-abs(x - mu) / b) / (2 * b)), [-mpmath.inf, mu, mpmath.inf]
    if n == "exponential":
        lam = _mp(fam[1])
        return (lambda x: lam * mpmath.exp(-lam * x)), [0, 1 / lam, mpmath.inf]
    if n == "gamma":
        k, th = _mp(fam[1]), _mp(fam[2])
        return (lambda x: x ** (k - 1) * mpmath.exp(-x / th) / (mpmath.gamma(k) * th ** k)), [0, k * th + th, mpmath.inf]
    if n == "beta":
        a, b = _mp(fam[1]), _mp(fam[2])
        return (lambda x: x ** (a - 1) * (1 - x) ** (b - 1) / mpmath.beta(a, b)), [0, mpmath.mpf(1) / 2, 1]
    if n == "beta_scaled":
        a, b, s = _mp(fam[1]), _mp(fam[2]), _mp(fam[3])
        return (lambda x: (x / s) ** (a - 1) * (1 - x / s) ** (b - 1) / (mpmath.beta(a, b) * s)), [0, s / 2, s]
    if n == "truncnormal":
        mu, var, a, b = _mp(fam[1]), _mp(fam[2]), _mp(fam[3]), _mp(fam[4])
        sd = mpmath.sqrt(var)
        Z = mpmath.ncdf((b - mu) / sd) - mpmath.ncdf((a - mu) / sd)
        pts = [a, b] if not (a < mu < b) else [a, mu, b]
        return (lambda x: mpmath.exp(-((x - mu) ** 2) / (2 * var)) / (mpmath.sqrt(2 * mpmath.pi * var) * Z)), pts
    raise ValueError(n)


def integral_expect(fam, g, dps=40):
    """E[g(X)] by the defining integral / sum; g takes and returns mpmath numbers"""
    old = mpmath.mp.dps
    mpmath.mp.dps = dps
    try:
        if fam[0] == "pmf":
            return sum((_mp(q) * g(_mp(v)) for v, q in fam[1]), mpmath.mpf(0))
        if fam[0] in ("beta", "beta_scaled"):
            # endpoint singularities x^(a-1), (1-x)^(b-1) are removed by substitution (exact change of variables)
            a, b = _mp(fam[1]), _mp(fam[2])
            s = _mp(fam[3]) if fam[0] == "beta_scaled" else mpmath.mpf(1)
            B = mpmath.beta(a, b)
            half = mpmath.mpf(1) / 2
            left = mpmath.quad(lambda u: g(s * u ** (1 / a)) * (1 - u ** (1 / a)) ** (b - 1) / a, [0, half ** a], maxdegree=10)
            right = mpmath.quad(lambda w: g(s * (1 - w ** (1 / b))) * (1 - w ** (1 / b)) ** (a - 1) / b, [0, half ** b], maxdegree=10)
            return (left + right) / B
        if fam[0] == "gamma" and fam[1] < 1:
            k, th = _mp(fam[1]), _mp(fam[2])
            c = k * th + th
            norm = mpmath.gamma(k) * th ** k
            left = mpmath.quad(lambda u: g(u ** (1 / k)) * mpmath.exp(-(u ** (1 / k)) / th) / k, [0, c ** k], maxdegree=10)
            right = mpmath.quad(lambda x: g(x) * x ** (k - 1) * mpmath.exp(-x / th), [c, mpmath.inf], maxdegree=10)
            return (left + right) / norm
        f, pts = density(fam)
        return mpmath.quad(lambda x: g(x) * f(x), pts, maxdegree=10)
    finally:
        mpmath.mp.dps = old


def mgf_domain(fam):
    """(lo, hi) open interval of t where E exp(tX) is finite; None = unbounded"""
    n = fam[0]
    if n == "exponential":
        return (None, fam[1])
    if n == "laplace":
        return (-1 / fam[2], 1 / fam[2])
    if n == "gamma":
        return (None, 1 / fam[2])
    return (None, None)


def func_joint_moment(fam, a, b, c, d, dps=40):
    """E[X^a sin^b X cos^c X exp(dX)]; raises OverflowError-like ValueError when it does not exist"""
    if fam[0] == "point":
        x = _mp(fam[1])
        old = mpmath.mp.dps
        mpmath.mp.dps = dps
        try:
            return x ** a * mpmath.sin(x) ** b * mpmath.cos(x) ** c * mpmath.exp(d * x)
        finally:
            mpmath.mp.dps = old
    if fam[0] == "twopoint":
        fam = ("pmf", ((fam[1], 1 - fam[3]), (fam[2], fam[3])))
    lo, hi = mgf_domain(fam)
    if d and ((hi is not None and d >= hi) or (lo is not None and d <= lo)):
        raise ValueError("exponential moment does not exist")
    return integral_expect(fam, lambda x: x ** a * mpmath.sin(x) ** b * mpmath.cos(x) ** c * mpmath.exp(d * x), dps)


def func_joint_moment_refined(fam, a, b, c, d, dps=50):
    """
    E[X^a sin^b X cos^c X exp(dX)] once more, by quadrature over pieces of length pi/2 (the integrand oscillates with frequencies up to b+c)
    inside a range outside of which the envelope |x|^a exp(dx) f(x) is below 10^-dps.  Returns (value, error estimate) or None when the
    family has no smooth density on an interval (point masses, Beta, Gamma with shape < 1: integral_expect already removes their singularities).
    """
    n = fam[0]
    if n not in ("normal", "laplace", "exponential", "gamma", "uniform", "truncnormal") or (n == "gamma" and fam[1] < 1):
        return None
    lo_d, hi_d = mgf_domain(fam)
    if d and ((hi_d is not None and d >= hi_d) or (lo_d is not None and d <= lo_d)):
        raise ValueError("exponential moment does not exist")
    old = mpmath.mp.dps
    mpmath.mp.dps = dps
    try:
        f, pts = density(fam)
        inner = [p_ for p_ in pts if p_ not in (-mpmath.inf, mpmath.inf)]
        eps = mpmath.mpf(10) ** (-dps)

        def envelope(x):
            return (1 + abs(x)) ** a * mpmath.exp(d * x) * f(x)

        def cut(start, direction):
            r = mpmath.mpf(2)
            while envelope(start + direction * r) > eps and r < 10 ** 7:
                r *= mpmath.mpf(3) / 2
            return start + direction * r

        lo = cut(inner[0], -1) if pts[0] == -mpmath.inf else pts[0]
        hi = cut(inner[-1], 1) if pts[-1] == mpmath.inf else pts[-1]
        h = mpmath.pi / 2
        grid = set(inner)
        x = lo
        while x < hi:
            grid.add(x)
            x += h
        grid.add(hi)
        grid = sorted(g_ for g_ in grid if lo <= g_ <= hi)

        def fn(x):
            return x ** a * mpmath.sin(x) ** b * mpmath.cos(x) ** c * mpmath.exp(d * x) * f(x)

        total = mpmath.mpf(0)
        err = mpmath.mpf(0)
        for x0, x1 in zip(grid, grid[1:]):
            v, e = mpmath.quad(fn, [x0, x1], error=True, maxdegree=8)
            total += v
            err += e
        # what lies outside the cut is bounded by a few times eps (the envelope decays at least exponentially there)
        return total, err + 100 * eps
    finally:
        mpmath.mp.dps = old
