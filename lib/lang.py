"""
Own AST of Polar's loop language + renderer.  Independent of Polar's classes.

Everything is plain JSON-able data (lists, strings, ints) so that a case can be
written to a replay file and read back unchanged.

Numbers are strings "a/b" or "a" (exact rationals).

expr  := ["num", "3/4"] | ["var", "x"] | ["sym", "p"]
       | ["add", e, e] | ["sub", e, e] | ["mul", e, e] | ["neg", e]
       | ["pow", e, k]            (k non-negative int)
       | ["div", e, "3/4"]         (division by a constant)
       | ["raw", "2**3**2", "512"] (a constant written as source text with its value under Python precedence; C19)
cond  := ["true"] | ["false"] | ["cmp", e, cop, e] | ["not", c] | ["and", c, c] | ["or", c, c]
rhs   := ["expr", e] | ["choice", [e...], [prob e...]]   (len(probs) == len(es) or len(es)-1)
       | ["draw", "Normal", [e...]] | ["func", "Sin", argname-or-number-string]
stmt  := ["assign", var, rhs]
       | ["simult", [var...], [rhs...]]
       | ["if", [[cond, [stmt...]], ...], else_stmts | None]
       | ["gassign", var, rhs, cond, defaultvar]       (only for programs read back from Polar)
prog  := {"types": {var: ["FiniteRange"|"Finite", [numbers]]}, "init": [stmt], "guard": cond, "body": [stmt]}
"""
from fractions import Fraction


def F(s):
    if isinstance(s, Fraction):
        return s
    if isinstance(s, int):
        return Fraction(s)
    return Fraction(s)


def fs(x):
    """Fraction -> canonical string"""
    x = Fraction(x)
    return str(x.numerator) if x.denominator == 1 else f"{x.numerator}/{x.denominator}"


def num(x):
    return ["num", fs(x)]


def var(v):
    return ["var", v]


# ------------------------------------------------------------------ rendering

_PREC = {"add": 1, "sub": 1, "mul": 2, "div": 2, "neg": 3, "pow": 4, "num": 9, "var": 9, "sym": 9}


def _num_text(s, style):
    x = Fraction(s)
    if x.denominator == 1:
        return str(x.numerator)
    if style.get("decimals") and _is_finite_decimal(x):
        return _decimal_text(x)
    return f"{x.numerator}/{x.denominator}"


def _is_finite_decimal(x):
    d = x.denominator
    for p in (2, 5):
        while d % p == 0:
            d //= p
    return d == 1


def _decimal_text(x):
    # exact finite decimal expansion
    sign = "-" if x < 0 else ""
    x = abs(x)
    k = 0
    while (x * 10**k).denominator != 1:
        k += 1
    digits = str((x * 10**k).numerator).rjust(k + 1, "0")
    return sign + digits[: len(digits) - k] + "." + digits[len(digits) - k:]


def render_expr(e, style=None, top=True):
    style = style or {}
    return _re(e, style, 0)


def _re(e, style, ctx):
    """render with minimal parentheses for Python precedence; ctx = required precedence"""
    k = e[0]
    if k == "num":
        x = Fraction(e[1])
        t = _num_text(e[1], style)
        # a fraction a/b or negative number is a compound in Python syntax
        if x < 0:
            t = f"({t})"
        elif x.denominator != 1 and "/" in t and ctx >= 2:
            t = f"({t})"
        return _extra(t, style)
    if k in ("var", "sym"):
        return _extra(e[1], style)
    if k == "raw":
        return f"({e[1]})" if ctx >= 1 else e[1]
    if k == "neg":
        # the grammar only knows a sign attached to an atom ("-x"), not "-(...)"
        if e[1][0] in ("var", "sym"):
            t = f"-{e[1][1]}"
            return f"({t})" if ctx >= 1 else t
        return _re(["mul", ["num", "-1"], e[1]], style, ctx)
    if k == "pow":
        base = _re(e[1], style, 5)
        t = f"{base}**{int(e[2])}"
        return f"({t})" if ctx >= 4 else t
    if k == "div":
        a = _re(e[1], style, 2)
        b = _re(["num", e[2]], style, 3)
        t = f"{a}/{b}"
        return f"({t})" if ctx >= 3 else t
    if k in ("add", "sub", "mul"):
        p = _PREC[k]
        op = {"add": " + ", "sub": " - ", "mul": "*"}[k]
        a = _re(e[1], style, p)
        # right operand of - needs strictly higher; for + and * also keep left-assoc shape
        b = _re(e[2], style, p + 1)
        t = f"{a}{op}{b}"
        return f"({t})" if ctx > p else t
    raise ValueError(f"bad expr {e}")


def _extra(t, style):
    if style.get("parens_atoms"):
        return f"({t})"
    return t


def render_cond(c, style=None):
    style = style or {}
    k = c[0]
    if k == "true":
        return "true"
    if k == "false":
        return "false"
    if k == "cmp":
        return f"{_re(c[1], style, 0)} {c[2]} {_re(c[3], style, 0)}"
    if k == "not":
        return f"!({render_cond(c[1], style)})"
    if k in ("and", "or"):
        op = "&&" if k == "and" else "||"
        return f"({render_cond(c[1], style)}) {op} ({render_cond(c[2], style)})"
    raise ValueError(f"bad cond {c}")


def render_rhs(r, style=None):
    style = style or {}
    k = r[0]
    if k == "expr":
        return _re(r[1], style, 0)
    if k == "choice":
        es, ps = r[1], r[2]
        out = ""
        for i, e in enumerate(es):
            out += _re(e, style, 0)
            if i < len(ps):
                out += " {" + _re(ps[i], style, 0) + "} "
        return out.rstrip() if len(ps) == len(es) else out
    if k == "draw":
        return f"{r[1]}({', '.join(_re(p, style, 0) for p in r[2])})"
    if k == "func":
        return f"{r[1]}({r[2]})"
    raise ValueError(f"bad rhs {r}")


def render_stmts(stmts, style=None, indent=0):
    style = style or {}
    pad = " " * indent
    lines = []
    for s in stmts:
        k = s[0]
        if k == "assign":
            lines.append(f"{pad}{s[1]} = {render_rhs(s[2], style)}")
        elif k == "simult":
            lines.append(f"{pad}{', '.join(s[1])} = {', '.join(render_rhs(r, style) for r in s[2])}")
        elif k == "if":
            for i, (c, body) in enumerate(s[1]):
                kw = "if" if i == 0 else "elif"
                lines.append(f"{pad}{kw} {render_cond(c, style)}:")
                lines += render_stmts(body, style, indent + 4)
            if s[2] is not None:
                lines.append(f"{pad}else:")
                lines += render_stmts(s[2], style, indent + 4)
            lines.append(f"{pad}end")
        elif k == "gassign":
            lines.append(f"{pad}{s[1]} = {render_rhs(s[2], style)}  |  {render_cond(s[3], style)}  :  {s[4]}")
        else:
            raise ValueError(f"bad stmt {s}")
        if style.get("comments"):
            lines[-1] += "  # c"
    return lines


def render_program(p, style=None):
    style = style or {}
    lines = []
    if p.get("types"):
        lines.append("types")
        for v, (tn, vals) in p["types"].items():
            lines.append(f"    {v} : {tn}({', '.join(str(x) for x in vals)})")
        lines.append("end")
    lines += render_stmts(p["init"], style, 0)
    lines.append(f"while {render_cond(p['guard'], style)}:")
    lines += render_stmts(p["body"], style, 4)
    lines.append("end")
    if style.get("blank_lines"):
        out = []
        for ln in lines:
            out.append(ln)
            out.append("")
        lines = out
    return "\n".join(lines) + "\n"


# ------------------------------------------------------------------ helpers


def expr_vars(e, acc=None, kinds=("var",)):
    acc = set() if acc is None else acc
    if e[0] in ("var", "sym"):
        if e[0] in kinds:
            acc.add(e[1])
    elif e[0] in ("add", "sub", "mul"):
        expr_vars(e[1], acc, kinds)
        expr_vars(e[2], acc, kinds)
    elif e[0] in ("neg", "pow", "div"):
        expr_vars(e[1], acc, kinds)
    return acc


def cond_vars(c, acc=None, kinds=("var",)):
    acc = set() if acc is None else acc
    if c[0] == "cmp":
        expr_vars(c[1], acc, kinds)
        expr_vars(c[3], acc, kinds)
    elif c[0] == "not":
        cond_vars(c[1], acc, kinds)
    elif c[0] in ("and", "or"):
        cond_vars(c[1], acc, kinds)
        cond_vars(c[2], acc, kinds)
    return acc


def rhs_vars(r, acc=None, kinds=("var",)):
    acc = set() if acc is None else acc
    if r[0] == "expr":
        expr_vars(r[1], acc, kinds)
    elif r[0] == "choice":
        for e in r[1] + r[2]:
            expr_vars(e, acc, kinds)
    elif r[0] == "draw":
        for e in r[2]:
            expr_vars(e, acc, kinds)
    elif r[0] == "func":
        if "var" in kinds and not _is_number_text(r[2]):
            acc.add(r[2])
    return acc


def _is_number_text(s):
    try:
        Fraction(str(s))
        return True
    except Exception:
        return False


def stmts_assigned(stmts, acc=None):
    acc = set() if acc is None else acc
    for s in stmts:
        if s[0] in ("assign", "gassign"):
            acc.add(s[1])
        elif s[0] == "simult":
            acc.update(s[1])
        elif s[0] == "if":
            for _, b in s[1]:
                stmts_assigned(b, acc)
            if s[2] is not None:
                stmts_assigned(s[2], acc)
    return acc


def stmts_symbols(stmts, acc=None, kinds=("sym",)):
    """all symbolic-parameter names (or vars) read anywhere"""
    acc = set() if acc is None else acc
    for s in stmts:
        if s[0] == "assign":
            rhs_vars(s[2], acc, kinds)
        elif s[0] == "gassign":
            rhs_vars(s[2], acc, kinds)
            cond_vars(s[3], acc, kinds)
            if "var" in kinds:
                acc.add(s[4])
        elif s[0] == "simult":
            for r in s[2]:
                rhs_vars(r, acc, kinds)
        elif s[0] == "if":
            for c, b in s[1]:
                cond_vars(c, acc, kinds)
                stmts_symbols(b, acc, kinds)
            if s[2] is not None:
                stmts_symbols(s[2], acc, kinds)
    return acc


def program_symbols(p):
    acc = stmts_symbols(p["init"])
    stmts_symbols(p["body"], acc)
    cond_vars(p["guard"], acc, ("sym",))
    return acc


def program_vars(p):
    acc = stmts_assigned(p["init"])
    stmts_assigned(p["body"], acc)
    stmts_symbols(p["init"], acc, ("var",))
    stmts_symbols(p["body"], acc, ("var",))
    cond_vars(p["guard"], acc, ("var",))
    return acc


def subst_syms_expr(e, env):
    """replace ["sym", name] by numbers according to env {name: Fraction}; unknown syms stay"""
    k = e[0]
    if k == "raw":
        return e
    if k == "sym":
        return num(env[e[1]]) if e[1] in env else e
    if k in ("num", "var"):
        return e
    if k in ("add", "sub", "mul"):
        return [k, subst_syms_expr(e[1], env), subst_syms_expr(e[2], env)]
    if k == "neg":
        return [k, subst_syms_expr(e[1], env)]
    if k in ("pow", "div"):
        return [k, subst_syms_expr(e[1], env), e[2]]
    raise ValueError(e)


def subst_syms_cond(c, env):
    k = c[0]
    if k == "cmp":
        return ["cmp", subst_syms_expr(c[1], env), c[2], subst_syms_expr(c[3], env)]
    if k == "not":
        return ["not", subst_syms_cond(c[1], env)]
    if k in ("and", "or"):
        return [k, subst_syms_cond(c[1], env), subst_syms_cond(c[2], env)]
    return c


def subst_syms_rhs(r, env):
    k = r[0]
    if k == "expr":
        return ["expr", subst_syms_expr(r[1], env)]
    if k == "choice":
        return ["choice", [subst_syms_expr(e, env) for e in r[1]], [subst_syms_expr(e, env) for e in r[2]]]
    if k == "draw":
        return ["draw", r[1], [subst_syms_expr(e, env) for e in r[2]]]
    return r


def subst_syms_stmts(stmts, env):
    out = []
    for s in stmts:
        k = s[0]
        if k == "assign":
            out.append(["assign", s[1], subst_syms_rhs(s[2], env)])
        elif k == "gassign":
            out.append(["gassign", s[1], subst_syms_rhs(s[2], env), subst_syms_cond(s[3], env), s[4]])
        elif k == "simult":
            out.append(["simult", s[1], [subst_syms_rhs(r, env) for r in s[2]]])
        elif k == "if":
            out.append(["if", [[subst_syms_cond(c, env), subst_syms_stmts(b, env)] for c, b in s[1]],
                        None if s[2] is None else subst_syms_stmts(s[2], env)])
    return out


def subst_syms_program(p, env):
    return {"types": p.get("types", {}), "init": subst_syms_stmts(p["init"], env),
            "guard": subst_syms_cond(p["guard"], env), "body": subst_syms_stmts(p["body"], env)}


def count_constructs(p):
    """class tags of a program for histograms"""
    tags = set()

    def walk(stmts, depth):
        for s in stmts:
            if s[0] == "assign" or s[0] == "gassign":
                tags.add({"expr": "poly", "choice": "choice", "draw": "draw", "func": "func"}[s[2][0]])
                if s[2][0] == "draw":
                    tags.add("draw:" + s[2][1])
                    if any(expr_vars(e) for e in s[2][2]):
                        tags.add("draw_var_param")
            elif s[0] == "simult":
                tags.add("simult")
            elif s[0] == "if":
                tags.add("if")
                if depth >= 1:
                    tags.add("nested_if")
                if len(s[1]) > 1:
                    tags.add("elif")
                if s[2] is not None:
                    tags.add("else")
                for c, b in s[1]:
                    if c[0] in ("and", "or", "not"):
                        tags.add("compound_cond")
                    walk(b, depth + 1)
                if s[2] is not None:
                    walk(s[2], depth + 1)

    walk(p["body"], 0)
    if p["guard"][0] != "true":
        tags.add("guard")
    if program_symbols(p):
        tags.add("symbolic_param")
    return sorted(tags)
