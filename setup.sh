#!/bin/sh
# Offline setup: make sure hypothesis is importable by the interpreter the repository's tests use.
set -e
cd "$(dirname "$0")"
if ! /venv/bin/python -c "import hypothesis" 2>/dev/null; then
    /venv/bin/pip install --no-index --find-links /opt/veriftools/wheels hypothesis
fi
/venv/bin/python -c "import hypothesis, sympy, symengine, mpmath; print('setup ok: hypothesis', hypothesis.__version__)"
mkdir -p out evidence
