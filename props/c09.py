"""
C09 - moments after termination equal the expectation at loop exit.

Generator: guarded loops (a) all variables finitely valued - exit distribution by an exact absorbing-chain computation;
           (b) geometric-exit templates: stop flag drawn independently each iteration, numeric variable updated by an affine map -
               E at exit by the closed-form series, divergence decided by |q*c| >= 1.
Oracle: conditional sequence E(M | stopped by n) from the exact interpreter for every n with positive denominator; limits as above.
"""
import os
from fractions import Fraction

from hypothesis import strategies as st

from lib import gen, lang as L, refsem, polar_driver as pd, common, classifiers
from lib.lang import fs

PROPERTY_ID = "C09"
RULE = (
    "guarded loops: 60% finite-state programs from the generator profile 'guarded' restricted to finite variables (exit distribution by exact absorbing-chain "
    "algebra, <= 300 running states), 40% geometric-exit templates (stop = Bernoulli(p) each iteration; x = c*x + d; y = y + x or y = y + 1) incl. divergent "
    "cases |q*c| >= 1; goals: raw moment, central moment (c2, c3), cumulant (k2, k3) of a monomial of degree <= 2; "
    "non-trivial = P(exit) > 0 and the goal is not almost surely constant at exit; distinct by (program, goal)"
)
ASSUMPTIONS = [
    "conditional sequence: E(M [guard false at n]) / P(guard false at n) from lib/refsem.py, exact, for n <= 7",
    "limits: finite-state programs by exact absorbing Markov chain algebra over Fractions ((I-Q) solved by Gaussian elimination); templates by the closed-form geometric series",
    "known finding C09-F1 (moment-given-termination sequence lags one iteration) is recognised only by the exact relation polar(n) == truth(n-1) on all tested n",
]


def budget(tier):
    ex = int(os.environ.get("VERIF_EXAMPLES", "0"))
    if tier == "quick":
        return dict(shards=16, examples=ex or 14, shrink_calls=25, shard_timeout=1500, time_budget=120)
    return dict(shards=16, examples=ex or 600, shrink_calls=150, shard_timeout=6 * 3600, time_budget=1500)


PS = ["1/2", "1/3", "2/3", "1/4", "3/4", "1/5"]


@st.composite
def finite_case(draw):
    knobs = dict(gen.PROFILES["guarded"], cont=0.0, sym=0.0, lincyc=0.0)
    c = gen.Ctx(draw, knobs)
    nf = c.integer(1, 3)
    for f in gen.FINITE_NAMES[:nf]:
        c.fin[f] = [gen.F(x) for x in c.pick(gen.DOMAINS[:8])]
    g = gen.FINITE_NAMES[0]
    D = c.fin[g]
    # guard true on the initial value, false on at least one value of the domain
    init_val = c.pick(D)
    others = [x for x in D if x != init_val]
    stopv = c.pick(others)
    guard = ["cmp", L.var(g), "==", L.num(init_val)] if c.b(0.6) else ["not", ["cmp", L.var(g), "==", L.num(stopv)]]
    body = gen.block(c, 0, c.integer(1, 3))
    # make sure the loop can stop: reassign g by a choice that takes the stopping value with positive probability
    stop_stmt = ["assign", g, ["choice", [L.num(stopv), L.num(init_val)], [L.num(c.pick(PS))]]]
    init = [["assign", g, ["expr", L.num(init_val)]]]
    zconst = None
    if c.b(0.3):
        # a random quantity fixed before the loop that the body only reads and that decides how fast the loop stops:
        # its law given termination by n differs from its law before the loop
        zconst = "z"
        zdraw = c.pick([["draw", "Bernoulli", [L.num(c.pick(PS))]], ["draw", "DiscreteUniform", [L.num(0), L.num(2)]],
                        ["choice", [L.num(0), L.num(1)], [L.num(c.pick(PS))]], ["choice", [L.num(1), L.num(3)], [L.num(c.pick(PS))]]])
        init.append(["assign", "z", zdraw])
        p1, p2 = c.pick(PS), c.pick(PS)
        if p1 == p2:
            p2 = "9/10"
        stop_stmt = ["if", [[["cmp", L.var("z"), "==", L.num(1)], [["assign", g, ["choice", [L.num(stopv), L.num(init_val)], [L.num(p1)]]]]]],
                     [["assign", g, ["choice", [L.num(stopv), L.num(init_val)], [L.num(p2)]]]]]
    body.insert(c.integer(0, len(body)), stop_stmt)
    second = None
    if nf >= 2 and c.b(0.4):
        # conjunction guard: the loop can also stop through the second conjunct while the first still holds
        second = gen.FINITE_NAMES[1]
        D2 = c.fin[second]
        iv2 = c.pick(D2)
        st2 = c.pick([x for x in D2 if x != iv2])
        guard = ["and", guard, ["cmp", L.var(second), "==", L.num(iv2)]]
        body.insert(c.integer(0, len(body)), ["assign", second, ["choice", [L.num(st2), L.num(iv2)], [L.num(c.pick(PS))]]])
        init.append(["assign", second, ["expr", L.num(iv2)]])
    for f in list(c.fin)[1:]:
        if f != second:
            init.append(["assign", f, ["expr", L.num(c.pick(c.fin[f]))]])
    if c.uses_counter:
        return None
    prog = {"types": {}, "init": init, "guard": guard, "body": body}
    pool = sorted(c.fin)
    mono = {}
    for _ in range(c.integer(1, 2)):
        v = c.pick(pool)
        mono[v] = mono.get(v, 0) + 1
    if zconst is not None and c.b(0.7):
        mono = {"z": c.integer(1, 2)} if c.b(0.6) else dict(mono, z=1)
    return {"what": "finite", "prog": prog, "mono": mono}


@st.composite
def geom_case(draw):
    p = draw(st.sampled_from(PS))
    cc = draw(st.sampled_from(["1", "1", "2", "1/2", "3", "-1", "3/2", "-2", "1/3"]))
    d = draw(st.sampled_from(["0", "1", "-1", "2", "1/2"]))
    x0 = draw(st.sampled_from(["1", "0", "2", "-1"]))
    body = [["assign", "s", ["draw", "Bernoulli", [L.num(p)]]]]
    upd = ["assign", "x", ["expr", ["add", ["mul", L.num(cc), L.var("x")], L.num(d)]]]
    if draw(st.booleans()):
        body.append(upd)
    else:
        body.insert(0, upd)
    prog = {"types": {}, "init": [["assign", "s", ["expr", L.num(0)]], ["assign", "x", ["expr", L.num(x0)]]],
            "guard": ["cmp", L.var("s"), "==", L.num(0)], "body": body}
    return {"what": "geom", "prog": prog, "mono": {"x": draw(st.integers(1, 2))}, "p": p, "c": cc, "d": d, "x0": x0}


@st.composite
def cases(draw, tier="quick"):
    if draw(st.integers(0, 9)) <= 5:
        case = draw(finite_case())
        if case is None:
            case = draw(geom_case())
    else:
        case = draw(geom_case())
    case["kind"] = draw(st.sampled_from(["raw", "raw", "raw", "central", "cumulant"]))
    case["order"] = draw(st.integers(2, 3))
    return case


def strategy(tier):
    return cases(tier)


# ------------------------------------------------------------------ exact exit distribution (finite-state programs)


def exit_distribution(prog, max_states=300):
    """returns (list of (prob, state) at exit conditional on nothing, P(exit)); raises OracleGiveUp"""
    it = refsem.Interp(prog, uninit={}, max_states=5000)
    init = it.initial()
    running = {}
    order = []
    exited = {}

    def add_exit(st_, pr):
        k = st_.key()
        if k in exited:
            exited[k][0] += pr
        else:
            exited[k] = [pr, st_]

    frontier = []
    pi0 = {}
    for pr, s in init:
        if it.cond(prog["guard"], s):
            k = s.key()
            if k not in running:
                running[k] = s
                order.append(k)
                frontier.append(k)
            pi0[k] = pi0.get(k, 0) + pr
        else:
            add_exit(s, pr)
    trans = {}
    while frontier:
        k = frontier.pop()
        s = running[k]
        outs = []
        for pr, s2 in it.exec_block(prog["body"], s):
            s2 = s2.canonical()
            if s2.fams:
                raise refsem.OracleGiveUp("continuous state")
            k2 = s2.key()
            if it.cond(prog["guard"], s2):
                if k2 not in running:
                    running[k2] = s2
                    order.append(k2)
                    frontier.append(k2)
                    if len(running) > max_states:
                        raise refsem.OracleGiveUp("too many running states")
                outs.append(("run", k2, pr))
            else:
                outs.append(("exit", s2, pr))
        trans[k] = outs
    n = len(order)
    idx = {k: i for i, k in enumerate(order)}
    # expected visits v solves v (I - Q) = pi0   <=>  (I - Q)^T v^T = pi0^T
    A = [[Fraction(int(i == j)) for j in range(n)] for i in range(n)]
    for k, outs in trans.items():
        for kind, tgt, pr in outs:
            if kind == "run":
                A[idx[tgt]][idx[k]] -= pr
    b = [Fraction(pi0.get(k, 0)) for k in order]
    # Gaussian elimination
    M = [A[i] + [b[i]] for i in range(n)]
    for col in range(n):
        piv = None
        for r in range(col, n):
            if M[r][col] != 0:
                piv = r
                break
        if piv is None:
            raise refsem.OracleGiveUp("running class that never exits (I-Q singular)")
        M[col], M[piv] = M[piv], M[col]
        pv = M[col][col]
        M[col] = [x / pv for x in M[col]]
        for r in range(n):
            if r != col and M[r][col] != 0:
                f = M[r][col]
                M[r] = [a - f * c for a, c in zip(M[r], M[col])]
    v = [M[i][n] for i in range(n)]
    for k, outs in trans.items():
        for kind, tgt, pr in outs:
            if kind == "exit":
                add_exit(tgt, v[idx[k]] * pr)
    dist = [(pr, s) for pr, s in exited.values()]
    return dist, sum(pr for pr, _ in dist)


def law_stats(law, kind, order):
    """law: list of (value, prob) normalised; returns raw/central/cumulant of given order"""
    from props import c11

    lw = [[fs(v), fs(p)] for v, p in law]
    if kind == "raw":
        return c11.raw_moment(lw, 1)
    if kind == "central":
        return c11.central_moment(lw, order)
    return c11.cumulant_from_moments({i: c11.raw_moment(lw, i) for i in range(1, order + 1)}, order)


def geom_exit_moment(case, power):
    """E[x_T^power] for T ~ Geom(p) (T >= 1), x_n = c^n x0 + d (c^n - 1)/(c - 1) ; returns Fraction or 'inf'"""
    p, c, d, x0 = (Fraction(case[k]) for k in ("p", "c", "d", "x0"))
    q = 1 - p
    # x_n = A c^n + B  (c != 1)   or  x0 + d n (c == 1)
    upd_first = case["prog"]["body"][0][1] == "x"
    # number of updates at exit: T in both statement orders (the update runs in every executed iteration)

    class Oscillating(Exception):
        pass

    def geo(r):
        """sum_{n>=1} p q^(n-1) r^n ; None if it diverges to infinity; oscillating divergence (r < 0) is not judged"""
        if abs(q * r) >= 1:
            if r < 0:
                raise Oscillating()
            return None
        return p * r / (1 - q * r)

    try:
        return _geom_inner(c, d, x0, p, power, geo)
    except Oscillating:
        return None


def _geom_inner(c, d, x0, p, power, geo):
    if c == 1:
        # x_T = x0 + d T ; E T = 1/p ; E T^2 = (2 - p)/p^2
        ET, ET2 = 1 / p, (2 - p) / p ** 2
        if power == 1:
            return x0 + d * ET
        return x0 ** 2 + 2 * x0 * d * ET + d ** 2 * ET2
    A = x0 + d / (c - 1)
    B = -d / (c - 1)
    if power == 1:
        g = geo(c)
        if g is None:
            return "inf" if A != 0 else B
        return A * g + B
    g1, g2 = geo(c), geo(c * c)
    if A != 0 and g2 is None:
        return "inf"
    if A == 0:
        return B * B
    if g1 is None:
        return "inf"
    return A * A * g2 + 2 * A * B * g1 + B * B


def run_case(case, tier="quick"):
    import sympy
    from symengine.lib.symengine_wrapper import sympify
    from cli.common import get_moment_given_termination

    prog = case["prog"]
    text = L.render_program(prog)
    kind, order, mono = case["kind"], case["order"], case["mono"]
    key = common.case_key({"t": text, "m": mono, "k": kind, "o": order})
    tags = [case["what"], kind] + L.count_constructs(prog) + (["goal_over_random_loop_constant"] if "z" in case["mono"] and case["what"] == "finite" else [])
    base = {"key": key, "tags": tags}
    tl = 25 if tier == "quick" else 200
    m = sympify(pd.monomial_to_str(mono))
    goal = {"raw": f"E({m})", "central": f"c{order}({m})", "cumulant": f"k{order}({m})"}[kind]
    # ---- Polar
    try:
        with pd.time_limit(tl):
            an = pd.Analysis(text, cli_over={"after_loop": True})
            ga = an.goals_action()
            seq, _ = get_moment_given_termination(m, an.solvers, an.rec_builder, an.cli_args, an.program)
        with pd.time_limit(tl * 2):
            if kind == "raw":
                lim, _ = ga.handle_moment_goal([m])
            elif kind == "central":
                lim, _ = ga.handle_central_moment_goal([order, m])
            else:
                lim, _ = ga.handle_cumulant_goal([order, m])
    except pd.CaseTimeout:
        return dict(base, status="inconclusive", bucket="polar_time_limit")
    except RecursionError:
        return dict(base, status="inconclusive", bucket="recursion")
    except Exception as e:
        return dict(base, status="refusal", bucket=pd.refusal_bucket(e), detail=str(e)[:200])
    # ---- oracle: conditional sequence
    N = 7
    try:
        with pd.time_limit(tl):
            runs = common.oracle_runs(prog, [{}], N, max_states=5000)
            env, un, it, dists = runs[0]
            cond_truth = []
            for n in range(N + 1):
                stopped = lambda s: not it.cond(prog["guard"], s)
                den = sum((pr for pr, s in dists[n] if stopped(s)), Fraction(0))
                if den == 0:
                    cond_truth.append(None)
                else:
                    cond_truth.append(refsem.expectation(dists[n], mono, it, indicator=stopped) / den)
    except refsem.OracleGiveUp as e:
        return dict(base, status="gave_up", bucket=str(e)[:60])
    except pd.CaseTimeout:
        return dict(base, status="gave_up", bucket="oracle_time_limit")
    # ---- limit oracle
    truth_lim = None
    try:
        if case["what"] == "finite":
            dist, pexit = exit_distribution(prog)
            if pexit == 0:
                return dict(base, status="gave_up", bucket="never_exits")
            acc = {}
            for pr, s in dist:
                v = refsem.monomial_value(mono, s, it).cval()
                acc[v] = acc.get(v, 0) + pr / pexit
            law = sorted(acc.items())
            truth_lim = law_stats(law, kind, order)
            base["nontrivial"] = len(law) > 1
        else:
            k = mono["x"]
            m1 = geom_exit_moment(case, k)
            if m1 is None:
                tags.append("oscillating_divergence_not_judged")
            if kind == "raw":
                truth_lim = m1
            else:
                m2 = geom_exit_moment(dict(case), 2 * k) if k == 1 else None
                if kind in ("central", "cumulant") and order == 2 and k == 1 and m1 is not None and m2 is not None:
                    truth_lim = "inf" if (m1 == "inf" or m2 == "inf") else m2 - m1 * m1
                else:
                    truth_lim = None  # higher orders of the template are not judged
            base["nontrivial"] = True
            if truth_lim == "inf":
                tags.append("divergent")
    except refsem.OracleGiveUp as e:
        truth_lim = None
        tags.append("limit_oracle_gave_up")
    # ---- compare the limit
    if truth_lim is not None:
        ls = sympy.sympify(lim)
        if truth_lim == "inf":
            if ls.is_finite and not ls.has(sympy.oo, sympy.zoo, sympy.nan):
                return dict(base, status="violation", bucket="divergent_expectation_reported_finite", nontrivial=True,
                            detail={"program": text, "goal": goal + " after loop", "polar": str(lim), "truth": "diverges"})
        else:
            ok = False
            if ls.free_symbols:
                ok = False
            elif ls.is_Rational:
                ok = Fraction(int(ls.p), int(ls.q)) == truth_lim
            else:
                try:
                    ok = pd.values_equal(pd.robust_numeric(ls), truth_lim)
                except Exception:
                    ok = False
            if not ok:
                return dict(base, status="violation", bucket=f"after_loop_{kind}", nontrivial=True,
                            detail={"program": text, "goal": goal + " after loop", "polar": str(lim), "truth": fs(truth_lim)})
    # ---- compare the conditional sequence
    polar_seq = []
    for n in range(N + 1):
        try:
            polar_seq.append(pd.eval_closed_form(seq, n, {}))
        except (ValueError, KeyError):
            polar_seq.append(None)
        except pd.CaseTimeout:
            return dict(base, status="inconclusive", bucket="evaluation_time_limit")
    mism = [n for n in range(N + 1) if cond_truth[n] is not None and (polar_seq[n] is None or not pd.values_equal(polar_seq[n], cond_truth[n]))]
    if mism:
        lag = all(polar_seq[n] is not None and pd.values_equal(polar_seq[n], cond_truth[n - 1]) for n in range(2, N + 1) if cond_truth[n - 1] is not None)
        return dict(base, status="violation", bucket="given_termination_sequence" + (":lags_one_iteration" if lag else ""), nontrivial=True,
                    detail={"program": text, "goal": str(m), "first_n": mism[0], "polar": [common.fmt(x) if x is not None else None for x in polar_seq],
                            "truth": [fs(x) if x is not None else None for x in cond_truth], "sequence": str(seq)[:400],
                            "original_loop_guard": str(an.program.original_loop_guard), "lag": lag})
    return dict(base, status="ok")


def classify(case, verdict):
    if verdict.get("bucket") == "given_termination_sequence:lags_one_iteration" and verdict["detail"].get("lag"):
        return "given_termination_lag"
    return None


def sample_repr(case, verdict):
    return {"program": L.render_program(case["prog"]), "goal": pd.monomial_to_str(case["mono"]), "kind": case["kind"], "order": case["order"],
            "status": verdict["status"], "tags": verdict["tags"]}
