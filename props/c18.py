"""
C18 - loops within the documented restrictions are accepted and analysable.

Generator: programs inside the README's class by construction (profile "inclass"), incl. the sub-classes the property names.
Oracle: acceptance predicate (normalize_program, RecBuilder.get_recurrences, RecurrenceSolver.get must not raise for goals over effective
variables and loop constants; closed form free of unexpected symbols) + every accepted answer compared with the exact reference interpreter.
A refusal is a violation identified by (exception type, raising function).
"""
import os
from fractions import Fraction

from hypothesis import strategies as st

from lib import gen, lang as L, refsem, polar_driver as pd, common

PROPERTY_ID = "C18"
RULE = (
    "programs from the profile 'inclass' (finite variables only in conditions/guards, constant probabilities and distribution parameters up to location/scale, "
    "non-linear dependencies acyclic by construction, all variables initialised); sub-classes drawn with 15% each: loop constant used in a condition, nested branch "
    "reassigning its own condition variable, non-integer finite values compared in conditions; 10%: goal over a loop-constant variable; goals = monomials of "
    "degree <= 3 over variables Polar classifies effective; non-trivial = the program has a condition or a guard; distinct by (program, goals)"
)
ASSUMPTIONS = [
    "the generator only produces programs inside the README's 'Loop Restrictions' (by construction, see lib/gen.py); goals whose variables Polar classifies defective are skipped",
    "a time limit is inconclusive, never a refusal",
    "accepted answers are compared with lib/refsem.py as in C01 (a wrong or partial result is not an acceptable form of refusal)",
]


def budget(tier):
    ex = int(os.environ.get("VERIF_EXAMPLES", "0"))
    if tier == "quick":
        return dict(shards=16, examples=ex or 22, shrink_calls=40, shard_timeout=1500, time_budget=110)
    return dict(shards=16, examples=ex or 2000, shrink_calls=300, shard_timeout=6 * 3600, time_budget=1500)


@st.composite
def cases(draw, tier="quick"):
    prog, meta = draw(gen.programs("inclass", uninit_ok=False, max_body=3))
    goals = draw(gen.goals_for(prog, meta, max_goals=2))
    if draw(st.integers(0, 9)) == 9:
        consts = sorted(L.stmts_assigned(prog["init"]) - L.stmts_assigned(prog["body"]))
        if consts:
            goals = goals + [{draw(st.sampled_from(consts)): draw(st.integers(1, 2))}]
            meta = dict(meta, subclasses=meta["subclasses"] + ["goal_over_loop_constant"])
    points = draw(gen.param_points(prog, 1))
    return {"prog": prog, "meta": meta, "goals": goals, "points": points}


def strategy(tier):
    return cases(tier)


def run_case(case, tier="quick"):
    from symengine.lib.symengine_wrapper import sympify
    from cli.common import get_moment
    from recurrences import RecBuilder

    prog = case["prog"]
    text = L.render_program(prog)
    key = common.case_key({"t": text, "g": case["goals"]})
    tags = L.count_constructs(prog) + [f"sub:{s}" for s in case["meta"].get("subclasses", [])]
    base = {"key": key, "tags": tags, "nontrivial": any(t in tags for t in ("if", "guard"))}
    tl = 12 if tier == "quick" else 90
    # ---- acceptance by normalization
    try:
        with pd.time_limit(tl):
            pd.set_settings()
            program = pd.normalize(pd.parse(text))
    except pd.CaseTimeout:
        return dict(base, status="inconclusive", bucket="polar_time_limit")
    except RecursionError:
        return dict(base, status="inconclusive", bucket="recursion")
    except Exception as e:
        return dict(base, status="violation", bucket="refusal:" + pd.refusal_bucket(e), detail={"program": text, "stage": "normalize_program", "error": str(e)[:300],
                                                                                             "subclasses": case["meta"].get("subclasses", [])})
    if program.abstracted_const_store:
        return dict(base, status="violation", bucket="partial_result:abstracted_condition", detail={"program": text, "normal_form": str(program)})
    effective = {str(v) for v in program.effective_variables}
    loop_consts = L.stmts_assigned(prog["init"]) - L.stmts_assigned(prog["body"])
    rb = RecBuilder(program)
    cli = pd.default_cli_args()
    solvers = {}
    results = {}
    skipped = 0
    for mono in case["goals"]:
        if not all(v in effective or v in loop_consts for v in mono):
            skipped += 1
            continue
        k = pd.monomial_to_str(mono)
        try:
            with pd.time_limit(tl):
                results[k] = (mono, get_moment(sympify(k), solvers, rb, cli, program))
        except pd.CaseTimeout:
            return dict(base, status="inconclusive", bucket="polar_time_limit")
        except RecursionError:
            return dict(base, status="inconclusive", bucket="recursion")
        except Exception as e:
            return dict(base, status="violation", bucket="refusal:" + pd.refusal_bucket(e),
                        detail={"program": text, "stage": "moment", "goal": k, "error": str(e)[:300], "subclasses": case["meta"].get("subclasses", [])})
    if not results:
        return dict(base, status="ok", counters={"goals_skipped_defective": skipped})
    maxcase = max(pd.max_special_case(r[1][0]) for r in results.values())
    N = min(8, maxcase + 3)
    try:
        with pd.time_limit(tl * 2):
            runs = common.oracle_runs(prog, case["points"], N)
    except refsem.OracleGiveUp as e:
        return dict(base, status="ok", counters={"oracle_gave_up": 1, "goals_accepted": len(results)})
    except pd.CaseTimeout:
        return dict(base, status="ok", counters={"oracle_gave_up": 1, "goals_accepted": len(results)})
    for k, (mono, (expr, exact)) in results.items():
        try:
            with pd.time_limit(tl * 2):
                bad, sk = common.compare_closed_form(expr, mono, runs, N)
        except pd.CaseTimeout:
            return dict(base, status="inconclusive", bucket="evaluation_time_limit")
        except KeyError as e:
            return dict(base, status="violation", bucket="partial_result:unexpected_symbols", detail={"program": text, "goal": k, "closed_form": str(expr), "msg": str(e)})
        if bad is not None:
            return dict(base, status="violation", bucket=f"wrong_value:n={bad['first_n']}", detail=dict(bad, program=text, goal=k, closed_form=str(expr)))
    return dict(base, status="ok", counters={"goals_accepted": len(results), "goals_skipped_defective": skipped})


F2_SITE = "NormalizingException@program/transformer/conditions_normalizer.py:_try_abstract_failed_condition"


def _has_conditional_temporaries(prog):
    """
    Structural precondition of finding C18-F2: Polar creates an auxiliary variable inside a branch (the _old copy of an if nested in
    another if or under a guard-free top-level if that reassigns one of its own condition variables, the _t temporaries of a simultaneous
    assignment, the stand-in of a draw with variable parameters), which is then assigned conditionally with itself as default.
    """
    found = []

    def walk(stmts, depth):
        for s in stmts:
            if s[0] == "simult" and depth >= 1:
                found.append("simult_in_branch")
            elif s[0] == "assign" and depth >= 1 and s[2][0] == "draw" and any(L.expr_vars(e) for e in s[2][2]):
                found.append("variable_draw_in_branch")
            elif s[0] == "if":
                cv = set()
                for cd, b in s[1]:
                    L.cond_vars(cd, cv)
                assigned = set()
                for _, b in s[1]:
                    L.stmts_assigned(b, assigned)
                if s[2] is not None:
                    L.stmts_assigned(s[2], assigned)
                if depth >= 1 and cv & assigned:
                    found.append("nested_if_reassigns_condition_variable")
                for _, b in s[1]:
                    walk(b, depth + 1)
                if s[2] is not None:
                    walk(s[2], depth + 1)

    # a non-trivial guard wraps the whole body in an if
    walk(prog["body"], 1 if prog["guard"][0] != "true" else 0)
    return found


def classify(case, verdict):
    b = verdict.get("bucket") or ""
    if b.startswith("refusal:"):
        site = b[len("refusal:"):]
        if site == F2_SITE and not _has_conditional_temporaries(case["prog"]):
            return None  # same call site, but not the listed root cause: reported as a violation
        return "call_site:" + site
    return None


def sample_repr(case, verdict):
    return {"program": L.render_program(case["prog"]), "goals": [pd.monomial_to_str(g) for g in case["goals"]],
            "subclasses": case["meta"].get("subclasses", []), "status": verdict["status"], "tags": verdict["tags"]}
