"""
C03 - moment recurrences are exact one-step expectation identities, closed, with the right initial values.

Generator: programs as in C01 (default settings and cond2arithm), goals up to degree 3.
Oracle: the final normal form is read back (lib/snapshot.py) and interpreted by the exact reference semantics; for every monomial M
of the system  E(M)(n+1) = sum c_i E(M_i)(n) + c  must hold exactly for n = 0..N-1, init_values_dict[M] = E(M)(0), every right-hand
monomial must have its own equation, and the matrix form must encode the same equations as the dict.
"""
import os
from fractions import Fraction

from hypothesis import strategies as st

from lib import gen, lang as L, refsem, polar_driver as pd, common, snapshot

PROPERTY_ID = "C03"
RULE = (
    "programs from the C01 generator (discrete 50%, mixed 20%, guarded 20%, param 10%), one goal monomial of degree <= 3, 20% with cond2arithm; "
    "non-trivial = the system has >= 2 monomials and at least one equation with >= 2 right-hand terms; distinct by (program, goal, settings)"
)
ASSUMPTIONS = [
    "the normal form produced by normalize_program is taken as the program whose one-step identities are judged (that it equals the source is C02's business); "
    "it is interpreted by lib/refsem.py with auxiliary variables that are read before written set to fixed rationals (the same value is substituted for Polar's v0 symbols)",
    "right-hand sides are split into monomials by sympy.Poly (own term walk, not Polar's get_monoms)",
]


def budget(tier):
    ex = int(os.environ.get("VERIF_EXAMPLES", "0"))
    if tier == "quick":
        return dict(shards=16, examples=ex or 25, shrink_calls=40, shard_timeout=1500, time_budget=110)
    return dict(shards=16, examples=ex or 4000, shrink_calls=300, shard_timeout=6 * 3600, time_budget=1500)


@st.composite
def cases(draw, tier="quick"):
    profile = draw(st.sampled_from(["discrete"] * 5 + ["mixed"] * 2 + ["guarded"] * 2 + ["param"]))
    prog, meta = draw(gen.programs(profile, max_body=3))
    goals = draw(gen.goals_for(prog, meta, max_goals=1))
    points = draw(gen.param_points(prog, 1))
    return {"prog": prog, "goal": goals[0], "points": points, "cond2arithm": draw(st.integers(0, 4)) == 4}


def strategy(tier):
    return cases(tier)


def _mono_of(sym_expr, variables):
    """sympy monomial expression -> {var: power}"""
    import sympy

    p = sympy.Poly(sym_expr, *variables)
    (mon, co), = p.terms()
    assert co == 1
    return {str(v): int(e) for v, e in zip(variables, mon) if e}


def run_case(case, tier="quick"):
    import sympy
    from recurrences import RecBuilder
    from symengine.lib.symengine_wrapper import sympify as se_sympify

    prog = case["prog"]
    text = L.render_program(prog)
    opts = {"cond2arithm": True} if case["cond2arithm"] else {}
    key = common.case_key({"t": text, "g": case["goal"], "o": opts})
    tags = L.count_constructs(prog) + (["cond2arithm"] if case["cond2arithm"] else [])
    base = {"key": key, "tags": tags}
    tl = 12 if tier == "quick" else 90
    try:
        with pd.time_limit(tl):
            pd.set_settings(**opts)
            program = pd.normalize(pd.parse(text))
            rb = RecBuilder(program)
            recs = rb.get_recurrences(se_sympify(pd.monomial_to_str(case["goal"])))
    except pd.CaseTimeout:
        return dict(base, status="inconclusive", bucket="polar_time_limit")
    except RecursionError:
        return dict(base, status="inconclusive", bucket="recursion")
    except Exception as e:
        return dict(base, status="refusal", bucket=pd.refusal_bucket(e), detail=str(e)[:200])
    if program.abstracted_const_store:
        return dict(base, status="gave_up", bucket="abstracted_condition")
    nform = str(program)
    monomials = list(recs.recurrence_dict.keys())
    variables = sorted({s for m in monomials for s in m.free_symbols}, key=str)
    const_syms = {sympy.Symbol(str(s)) for s in program.symbols}
    # ---- (i) closure, and splitting of right-hand sides
    system = {}
    try:
        all_vars = sorted(({sympy.Symbol(str(v)) for v in program.variables} | set(variables)), key=str)
        for M, rhs in recs.recurrence_dict.items():
            p = sympy.Poly(sympy.expand(rhs), *all_vars)
            terms = []
            for mon, co in p.terms():
                mexpr = sympy.Integer(1)
                for v, e in zip(all_vars, mon):
                    mexpr *= v ** e
                if co.free_symbols - const_syms:
                    return dict(base, status="violation", bucket="non_constant_coefficient", detail={"program": text, "monomial": str(M), "rhs": str(rhs)})
                terms.append((mexpr, co))
                if mexpr != 1 and mexpr not in recs.recurrence_dict:
                    return dict(base, status="violation", bucket="system_not_closed",
                                detail={"program": text, "normal_form": nform, "monomial": str(M), "rhs": str(rhs), "missing": str(mexpr)})
            system[M] = terms
    except sympy.PolynomialError as e:
        return dict(base, status="violation", bucket="rhs_not_polynomial", detail={"program": text, "msg": str(e)[:200]})
    # matrix form encodes the same equations
    vec = list(recs.monomials) + ([sympy.Integer(1)] if recs.is_inhomogeneous else [])
    prod = recs.recurrence_matrix * sympy.Matrix(vec)
    for i, M in enumerate(recs.monomials):
        if sympy.expand(prod[i] - recs.recurrence_dict[M]) != 0:
            return dict(base, status="violation", bucket="matrix_differs_from_dict", detail={"program": text, "monomial": str(M), "row": str(prod[i]), "dict": str(recs.recurrence_dict[M])})
    for i, M in enumerate(recs.monomials):
        if sympy.expand(recs.init_values_vector[i] - recs.init_values_dict[M]) != 0:
            return dict(base, status="violation", bucket="init_vector_differs_from_dict", detail={"program": text, "monomial": str(M)})
    nontrivial = len(monomials) >= 2 and any(len(t) >= 2 for t in system.values())
    tags.append("acyclic_system" if recs.is_acyclic else "cyclic_system")
    tags.append(f"system_size:{min(len(monomials) // 5 * 5, 40)}+")
    base["nontrivial"] = nontrivial
    # ---- (ii)/(iii) identities on the exact distribution of the normal form
    N = 4
    try:
        with pd.time_limit(tl * 3):
            nf_ast = snapshot.program_to_ast(program)
            runs = common.oracle_runs(nf_ast, case["points"], N, max_states=8000)
            for env, un, it, dists in runs:
                subs = common.polar_subs(env, un)

                def val(expr):
                    e = sympy.sympify(expr)
                    rep = {s: sympy.Rational(Fraction(subs[s.name]).numerator, Fraction(subs[s.name]).denominator) for s in e.free_symbols if s.name in subs}
                    e = e.xreplace(rep)
                    if e.free_symbols:
                        raise KeyError(str(e.free_symbols))
                    return common.exact_fraction(e)

                E = {}
                for M in monomials:
                    mono = _mono_of(M, sorted(M.free_symbols, key=str))
                    E[M] = [refsem.expectation(dists[n], mono, it) for n in range(N + 1)]
                for M in monomials:
                    iv = val(recs.init_values_dict[M])
                    if iv != E[M][0]:
                        return dict(base, status="violation", bucket="initial_value", nontrivial=True,
                                    detail={"program": text, "normal_form": nform, "monomial": str(M), "polar": L.fs(iv), "truth": L.fs(E[M][0]), "point": env, "uninit": {k: L.fs(v) for k, v in un.items()}})
                    for n in range(N):
                        rhs = Fraction(0)
                        for mexpr, co in system[M]:
                            c = val(co)
                            rhs += c * (E[mexpr][n] if mexpr != 1 else 1)
                        if rhs != E[M][n + 1]:
                            return dict(base, status="violation", bucket="one_step_identity", nontrivial=True,
                                        detail={"program": text, "normal_form": nform, "monomial": str(M), "recurrence": str(recs.recurrence_dict[M]), "n": n,
                                                "polar_rhs": L.fs(rhs), "truth": L.fs(E[M][n + 1]), "point": env, "uninit": {k: L.fs(v) for k, v in un.items()}})
    except refsem.OracleGiveUp as e:
        return dict(base, status="gave_up", bucket=str(e)[:60])
    except pd.CaseTimeout:
        return dict(base, status="gave_up", bucket="oracle_time_limit")
    except common.NotRational as e:
        return dict(base, status="gave_up", bucket="irrational_coefficient")
    except KeyError as e:
        return dict(base, status="violation", bucket="unexpected_symbols", detail={"program": text, "normal_form": nform, "msg": str(e)[:200]})
    return dict(base, status="ok", counters={"monomials_checked": len(monomials)})


def classify(case, verdict):
    return None


def sample_repr(case, verdict):
    return {"program": L.render_program(case["prog"]), "goal": pd.monomial_to_str(case["goal"]), "cond2arithm": case["cond2arithm"],
            "status": verdict["status"], "tags": verdict["tags"]}
