"""
C11 - central moments, cumulants, tail bounds and expansions match the exact law.

Sub-checks (drawn per case):
  conv        raw->central / raw->cumulant conversion on random finitely supported laws, orders <= 8, against the definitions
  conv_high   the same for orders up to 64 on 2-3 atom laws (central: definition; cumulants <= 24: numeric Taylor of log-mgf)
  prog        GoalsAction.handle_central_moment_goal / handle_cumulant_goal (and printed lines) vs the exact pmf at every n
  tail        printed upper / lower tail bounds valid for the exact pmf at every n (assumption checked as well)
  gram        Gram-Charlier density integrates to 1 and reproduces the first k raw moments implied by the cumulants
  cornish     Cornish-Fisher quantile equals the textbook expansion for 3, 4, 5 cumulants
"""
import itertools
import os
import re
from fractions import Fraction
from math import comb, factorial

import mpmath
from hypothesis import strategies as st

from lib import gen, lang as L, refsem, polar_driver as pd, common
from lib.lang import fs

PROPERTY_ID = "C11"
RULE = (
    "sub-checks conv (35%), conv_high (10%), prog (20%), tail (15%), gram (10%), cornish (10%); laws with 2-6 rational atoms; programs from the "
    "finitely supported generator profile; cumulant vectors rational with k2>0; non-trivial = order k>=3 / law not symmetric two-point / bound "
    "strictly between 0 and 1 / non-constant goal; distinct by the whole case"
)
ASSUMPTIONS = [
    "central moments by the definition sum p (x-mu)^k on the exact law; cumulants by the set-partition (Moebius) formula for orders <= 9 and by a "
    "300-digit numeric Taylor expansion of log E exp(tX) for higher orders (tolerance 1e-60 relative)",
    "program level: exact pmf from lib/refsem.py; tail probabilities from the pmf",
    "Cornish-Fisher compared numerically at 9 probabilities against the textbook polynomial (Abramowitz-Stegun 26.2.49 terms) at 1e-25",
]


def budget(tier):
    ex = int(os.environ.get("VERIF_EXAMPLES", "0"))
    if tier == "quick":
        return dict(shards=16, examples=ex or 60, shrink_calls=40, shard_timeout=1500, time_budget=110)
    return dict(shards=16, examples=ex or 8000, shrink_calls=300, shard_timeout=6 * 3600, time_budget=1500)


ATOMS = ["0", "1", "-1", "2", "3", "1/2", "-2", "5", "-1/3", "4", "3/2", "10"]


@st.composite
def law(draw, lo=2, hi=6):
    k = draw(st.integers(lo, hi))
    xs = draw(st.lists(st.sampled_from(ATOMS), min_size=k, max_size=k, unique=True))
    ws = [draw(st.integers(1, 6)) for _ in range(k)]
    tot = sum(ws)
    return [[x, fs(Fraction(w, tot))] for x, w in zip(xs, ws)]


@st.composite
def cases(draw, tier="quick"):
    what = draw(st.sampled_from(["conv"] * 7 + ["conv_high"] * 2 + ["prog"] * 4 + ["tail"] * 3 + ["gram"] * 2 + ["cornish"] * 2))
    case = {"what": what}
    if what == "conv":
        case["law"] = draw(law())
        case["order"] = draw(st.integers(2, 8))
    elif what == "conv_high":
        case["law"] = draw(law(2, 3))
        case["order"] = draw(st.sampled_from(list(range(64, 8, -1))))
    elif what in ("prog", "tail"):
        prog, meta = draw(gen.programs("discrete", uninit_ok=False, max_body=3))
        assigned = sorted(L.stmts_assigned(prog["body"]))
        v = draw(st.sampled_from(assigned))
        mono = {v: 1}
        if draw(st.integers(0, 3)) == 0:
            w = draw(st.sampled_from(assigned))
            mono[w] = mono.get(w, 0) + 1
        case.update(prog=prog, meta=meta, mono=mono)
        if what == "prog":
            case["kind"] = draw(st.sampled_from(["central", "cumulant"]))
            case["order"] = draw(st.integers(2, 4))
            case["at_n"] = draw(st.integers(0, 5))
        else:
            case["a"] = draw(st.sampled_from(["1", "2", "1/2", "3", "3/2", "5", "1/4"]))
            case["at_n"] = draw(st.integers(0, 5))
            case["tbm"] = draw(st.integers(1, 4))
    else:
        k = draw(st.integers(3, 6 if what == "gram" else 5))
        ks = [draw(st.sampled_from(["0", "1", "-1", "2", "1/2", "-3/2"])), draw(st.sampled_from(["1", "2", "4", "1/4", "9", "3", "1/2"]))]
        ks += [draw(st.sampled_from(["0", "1", "-1", "2", "1/2", "-1/3", "3", "-2"])) for _ in range(k - 2)]
        case["cumulants"] = ks
    return case


def strategy(tier):
    return cases(tier)


# ------------------------------------------------------------------ independent definitions


def raw_moment(lw, k):
    return sum(Fraction(p) * Fraction(x) ** k for x, p in lw)


def central_moment(lw, k):
    mu = raw_moment(lw, 1)
    return sum(Fraction(p) * (Fraction(x) - mu) ** k for x, p in lw)


def set_partitions(n):
    """block-size multisets with multiplicities: yields (sizes tuple, count of set partitions with these block sizes)"""

    def parts(n, mx):
        if n == 0:
            yield ()
            return
        for s in range(min(n, mx), 0, -1):
            for rest in parts(n - s, s):
                yield (s,) + rest

    for sizes in parts(n, n):
        cnt = factorial(n)
        for s in sizes:
            cnt //= factorial(s)
        for s in set(sizes):
            cnt //= factorial(sizes.count(s))
        yield sizes, cnt


def cumulant_from_moments(m, n):
    """kappa_n = sum over set partitions pi of (-1)^(|pi|-1) (|pi|-1)! prod m_|B|"""
    tot = Fraction(0)
    for sizes, cnt in set_partitions(n):
        b = len(sizes)
        term = Fraction((-1) ** (b - 1) * factorial(b - 1) * cnt)
        for s in sizes:
            term *= m[s]
        tot += term
    return tot


def moment_from_cumulants(kappa, n):
    """m_n = sum over set partitions of prod kappa_|B|"""
    tot = Fraction(0)
    for sizes, cnt in set_partitions(n):
        term = Fraction(cnt)
        for s in sizes:
            term *= kappa[s]
        tot += term
    return tot


def cumulant_numeric(lw, n):
    """n-th cumulant as n! * [t^n] log E exp(tX), 300-digit Taylor expansion"""
    mpmath.mp.dps = 400
    xs = [mpmath.mpf(Fraction(x).numerator) / Fraction(x).denominator for x, _ in lw]
    ps = [mpmath.mpf(Fraction(p).numerator) / Fraction(p).denominator for _, p in lw]
    # power series of M(t) = sum p exp(t x)
    M = [sum(p * x ** j for x, p in zip(xs, ps)) / mpmath.factorial(j) for j in range(n + 1)]
    # K = log M via K' M = M'
    K = [mpmath.mpf(0)] * (n + 1)
    for j in range(1, n + 1):
        s = j * M[j]
        for i in range(1, j):
            s -= i * K[i] * M[j - i]
        K[j] = s / (j * M[0])
    return K[n] * mpmath.factorial(n)


def _sym(x):
    import sympy

    x = Fraction(x)
    return sympy.Rational(x.numerator, x.denominator)


def _frac(e):
    import sympy

    e = sympy.sympify(e)
    if not e.is_Rational:
        e = sympy.simplify(e)
    if e.is_Rational:
        return Fraction(int(e.p), int(e.q))
    raise ValueError(f"not rational: {e}")


# ------------------------------------------------------------------ run


def run_case(case, tier="quick"):
    what = case["what"]
    key = common.case_key(case)
    base = {"key": key, "tags": [what]}
    tl = 25 if tier == "quick" else 180
    try:
        with pd.time_limit(tl * 3):
            if what in ("conv", "conv_high"):
                return _conv(case, base)
            if what == "prog":
                return _prog(case, base, tl)
            if what == "tail":
                return _tail(case, base, tl)
            if what == "gram":
                return _gram(case, base)
            if what == "cornish":
                return _cornish(case, base)
    except pd.CaseTimeout:
        return dict(base, status="inconclusive", bucket="time_limit")
    raise AssertionError(what)


def _conv(case, base):
    from utils import raw_moments_to_centrals, raw_moments_to_cumulants

    lw, k = case["law"], case["order"]
    m = {i: raw_moment(lw, i) for i in range(1, k + 1)}
    msym = {i: _sym(v) for i, v in m.items()}
    symmetric2 = len(lw) == 2 and Fraction(lw[0][1]) == Fraction(1, 2)
    base["nontrivial"] = k >= 3 and not symmetric2
    base["tags"] = base["tags"] + [f"order_bucket:{(k // 8) * 8}"]
    cen = raw_moments_to_centrals(dict(msym))
    truth = central_moment(lw, k)
    got = _frac(cen[k])
    if got != truth:
        return dict(base, status="violation", bucket="central_conversion", detail={"law": lw, "order": k, "polar": fs(got), "truth": fs(truth)})
    cum = raw_moments_to_cumulants(dict(msym))
    gotc = _frac(cum[k])
    if k <= 9:
        truthc = cumulant_from_moments(m, k)
        if gotc != truthc:
            return dict(base, status="violation", bucket="cumulant_conversion", detail={"law": lw, "order": k, "polar": fs(gotc), "truth": fs(truthc)})
        # self-check of the two independent cumulant oracles against each other
        num = cumulant_numeric(lw, k)
        assert abs(num - mpmath.mpf(truthc.numerator) / truthc.denominator) <= mpmath.mpf(10) ** -100 * max(1, abs(num)), "cumulant oracles disagree"
    elif k <= 24:
        num = cumulant_numeric(lw, k)
        g = mpmath.mpf(gotc.numerator) / gotc.denominator
        if abs(g - num) > mpmath.mpf(10) ** -60 * max(1, abs(num)):
            return dict(base, status="violation", bucket="cumulant_conversion_high", detail={"law": lw, "order": k, "polar": fs(gotc), "truth": mpmath.nstr(num, 40)})
    return dict(base, status="ok")


def _exact_law_of_goal(case, N):
    """list over n of the exact law [(value, prob)] of the goal monomial"""
    runs = common.oracle_runs(case["prog"], [{}], N, max_states=5000)
    env, un, it, dists = runs[0]
    laws = []
    for d in dists:
        acc = {}
        for pr, stt in d:
            v = refsem.monomial_value(case["mono"], stt, it).cval()
            acc[v] = acc.get(v, 0) + pr
        laws.append(sorted(acc.items()))
    return laws


def _prog(case, base, tl):
    from symengine.lib.symengine_wrapper import sympify

    text = L.render_program(case["prog"])
    k, kind = case["order"], case["kind"]
    base["tags"] = base["tags"] + [kind] + L.count_constructs(case["prog"])
    try:
        with pd.time_limit(tl):
            an = pd.Analysis(text)
            ga = an.goals_action()
            m = sympify(pd.monomial_to_str(case["mono"]))
            if kind == "central":
                res, exact = ga.handle_central_moment_goal([k, m])
            else:
                res, exact = ga.handle_cumulant_goal([k, m])
    except pd.CaseTimeout:
        return dict(base, status="inconclusive", bucket="polar_time_limit")
    except Exception as e:
        return dict(base, status="refusal", bucket=pd.refusal_bucket(e), detail=str(e)[:200])
    N = min(6, pd.max_special_case(res) + 3)
    try:
        laws = _exact_law_of_goal(case, N)
    except refsem.OracleGiveUp as e:
        return dict(base, status="gave_up", bucket=str(e)[:60])
    nonconst = False
    for n in range(N + 1):
        lw = [[fs(v), fs(p)] for v, p in laws[n]]
        if kind == "central":
            truth = central_moment(lw, k)
        else:
            truth = cumulant_from_moments({i: raw_moment(lw, i) for i in range(1, k + 1)}, k)
        nonconst = nonconst or len(lw) > 1
        try:
            pv = pd.eval_closed_form(res, n)
        except ValueError:
            continue
        if not pd.values_equal(pv, truth):
            return dict(base, status="violation", bucket=f"program_{kind}", nontrivial=True,
                        detail={"program": text, "goal": f"{'c' if kind == 'central' else 'k'}{k}({pd.monomial_to_str(case['mono'])})", "n": n,
                                "polar": common.fmt(pv), "truth": fs(truth), "closed_form": str(res)})
    # the printed at_n line
    an.cli_args.at_n = case["at_n"]
    try:
        with pd.captured_stdout() as buf:
            if kind == "central":
                ga.print_central_moment_goal(k, m, res, exact)
            else:
                ga.print_cumulant_goal(k, m, res, exact)
        if case["at_n"] <= N:
            for ln in buf.getvalue().splitlines():
                mm = re.match(r"[ck]\d+\(.* \| n=(\d+)\) = (.*) ≅ ", ln)
                if mm:
                    import sympy

                    lw = [[fs(v), fs(p)] for v, p in laws[case["at_n"]]]
                    truth = central_moment(lw, k) if kind == "central" else cumulant_from_moments({i: raw_moment(lw, i) for i in range(1, k + 1)}, k)
                    pv = pd.eval_closed_form(sympy.sympify(mm.group(2)), case["at_n"])
                    if not pd.values_equal(pv, truth):
                        return dict(base, status="violation", bucket=f"program_{kind}_printed", nontrivial=True,
                                    detail={"program": text, "line": ln, "truth": fs(truth)})
    except Exception:
        pass
    return dict(base, status="ok", nontrivial=nonconst and k >= 2)


def _tail(case, base, tl):
    import sympy
    from symengine.lib.symengine_wrapper import sympify

    text = L.render_program(case["prog"])
    a = Fraction(case["a"])
    base["tags"] = base["tags"] + L.count_constructs(case["prog"])
    m = sympify(pd.monomial_to_str(case["mono"]))
    asym = sympify(case["a"])
    try:
        with pd.time_limit(tl):
            an = pd.Analysis(text, cli_over={"tail_bound_moments": case["tbm"]})
            ga = an.goals_action()
            with pd.captured_stdout() as buf:
                ga.handle_tail_bound_upper_goal([m, asym])
            upper_out = buf.getvalue()
            with pd.captured_stdout() as buf:
                ga.handle_tail_bound_lower_goal([m, asym])
            lower_out = buf.getvalue()
    except pd.CaseTimeout:
        return dict(base, status="inconclusive", bucket="polar_time_limit")
    except Exception as e:
        return dict(base, status="refusal", bucket=pd.refusal_bucket(e), detail=str(e)[:200])
    nloc = {"n": sympy.Symbol("n", integer=True)}

    def parse_line(s):
        parts = s.split("; ")
        return [sympy.sympify(p, locals=nloc) for p in parts]

    uppers = []
    for ln in upper_out.splitlines():
        mm = re.match(r"\s*\((\d+)\) (.*)$", ln)
        if mm:
            try:
                uppers.append(parse_line(mm.group(2)))
            except Exception:
                return dict(base, status="gave_up", bucket="unparsable_bound_line")
    lower = None
    for ln in lower_out.splitlines():
        mm = re.match(r"P\(.*\) >= (.*)$", ln)
        if mm and "| n=" not in ln:
            try:
                lower = parse_line(mm.group(1))
            except Exception:
                return dict(base, status="gave_up", bucket="unparsable_bound_line")
    if len(uppers) != case["tbm"]:
        return dict(base, status="violation", bucket="tail_bound_count", detail={"program": text, "printed": upper_out})
    N = 6
    try:
        laws = _exact_law_of_goal(case, N)
    except refsem.OracleGiveUp as e:
        return dict(base, status="gave_up", bucket=str(e)[:60])

    def value(parts, n):
        e = parts[n] if n < len(parts) - 1 else parts[-1]
        return pd.eval_closed_form(e, n)

    informative = False
    holds_u = holds_l = 0
    for n in range(N + 1):
        lw = laws[n]
        nonneg = all(v >= 0 for v, p in lw)
        p_ge = sum(p for v, p in lw if v >= a)
        p_gt = sum(p for v, p in lw if v > a)
        if nonneg:
            holds_u += 1
            for i, parts in enumerate(uppers):
                try:
                    b = value(parts, n)
                except (ValueError, KeyError):
                    continue
                bq = b if isinstance(b, Fraction) else Fraction(str(sympy.N(b, 30)))
                if 0 < bq < 1:
                    informative = True
                if p_ge > bq:
                    return dict(base, status="violation", bucket="upper_tail_bound_invalid", nontrivial=True,
                                detail={"program": text, "goal": f"P({pd.monomial_to_str(case['mono'])} >= {case['a']})", "n": n, "bound_index": i + 1,
                                        "bound": str(b), "true_probability": fs(p_ge)})
        if all(v - a >= 0 for v, p in lw) and lower is not None:
            holds_l += 1
            try:
                b = value(lower, n)
            except (ValueError, KeyError):
                continue
            bq = b if isinstance(b, Fraction) else Fraction(str(sympy.N(b, 30)))
            if 0 < bq < 1:
                informative = True
            if p_gt < bq:
                return dict(base, status="violation", bucket="lower_tail_bound_invalid", nontrivial=True,
                            detail={"program": text, "goal": f"P({pd.monomial_to_str(case['mono'])} > {case['a']})", "n": n,
                                    "bound": str(b), "true_probability": fs(p_gt), "point_mass_at_threshold": all(v == a for v, p in lw)})
    return dict(base, status="ok", nontrivial=informative, counters={"n_with_upper_assumption": holds_u, "n_with_lower_assumption": holds_l})


def _normal_moment(mu, var, k):
    import sympy

    s = sympy.Integer(0)
    for j in range(0, k + 1, 2):
        df = 1
        t = j - 1
        while t > 1:
            df *= t
            t -= 2
        s += comb(k, j) * mu ** (k - j) * var ** (j // 2) * df
    return s


def _gram(case, base):
    import sympy
    from expansions import GramCharlierExpansion

    ks = [Fraction(x) for x in case["cumulants"]]
    k = len(ks)
    kap = {i + 1: ks[i] for i in range(k)}
    base["nontrivial"] = any(x != 0 for x in ks[2:])
    try:
        f = GramCharlierExpansion({i: _sym(v) for i, v in kap.items()})()
    except Exception as e:
        return dict(base, status="refusal", bucket=pd.refusal_bucket(e), detail=str(e)[:200])
    x = sympy.Symbol("x")
    mu, var = _sym(kap[1]), _sym(kap[2])
    phi = sympy.exp(-(x - mu) ** 2 / (2 * var)) / sympy.sqrt(2 * sympy.pi * var)
    poly = sympy.simplify(f / phi)
    poly = sympy.expand(poly)
    try:
        P = sympy.Poly(poly, x)
    except Exception:
        return dict(base, status="violation", bucket="gram_charlier_not_poly_times_normal", detail={"cumulants": case["cumulants"], "density": str(f)})
    for j in range(0, k + 1):
        tot = sympy.Integer(0)
        for (i,), co in P.terms():
            tot += co * _normal_moment(mu, var, i + j)
        tot = sympy.expand(tot)
        truth = Fraction(1) if j == 0 else moment_from_cumulants(kap, j)
        diff = sympy.simplify(tot - _sym(truth))
        if diff != 0 and not diff.free_symbols:
            # radicals (powers of sqrt(2) from the Hermite polynomials, sqrt(kappa_2)) that simplify() left standing: decide numerically
            try:
                if abs(complex(pd.robust_numeric(diff))) <= 1e-40 * max(1.0, abs(float(truth))):
                    diff = sympy.Integer(0)
            except Exception:
                pass
        if diff != 0:
            return dict(base, status="violation", bucket="gram_charlier_moment", detail={"cumulants": case["cumulants"], "j": j, "polar": str(tot), "truth": fs(truth)})
    # numeric cross-check of the j=0 integral at 30 digits on the expression itself
    mpmath.mp.dps = 30
    fl = sympy.lambdify(x, f, "mpmath")
    sd = mpmath.sqrt(mpmath.mpf(kap[2].numerator) / kap[2].denominator)
    mu_f = mpmath.mpf(kap[1].numerator) / kap[1].denominator
    integ = mpmath.quad(fl, [-mpmath.inf, mu_f - 3 * sd, mu_f, mu_f + 3 * sd, mpmath.inf])
    if abs(integ - 1) > mpmath.mpf(10) ** -20:
        return dict(base, status="violation", bucket="gram_charlier_integral", detail={"cumulants": case["cumulants"], "integral": mpmath.nstr(integ, 25)})
    return dict(base, status="ok")


def _cornish(case, base):
    import sympy
    from expansions import CornishFisherExpansion

    ks = [Fraction(x) for x in case["cumulants"]]
    k = len(ks)
    base["nontrivial"] = any(x != 0 for x in ks[2:])
    try:
        q = CornishFisherExpansion({i + 1: _sym(v) for i, v in enumerate(ks)})()
    except Exception as e:
        return dict(base, status="refusal", bucket=pd.refusal_bucket(e), detail=str(e)[:200])
    mpmath.mp.dps = 40
    k1, k2 = [mpmath.mpf(v.numerator) / v.denominator for v in ks[:2]]
    sd = mpmath.sqrt(k2)
    g = [mpmath.mpf(0)] * 4
    for r in range(3, k + 1):
        g[r - 2] = (mpmath.mpf(ks[r - 1].numerator) / ks[r - 1].denominator) / sd ** r
    p = sympy.Symbol("p")
    for pv in ["1/10", "1/4", "1/3", "1/2", "3/5", "3/4", "9/10", "1/100", "99/100"]:
        pf = Fraction(pv)
        z = mpmath.sqrt(2) * mpmath.erfinv(2 * mpmath.mpf(pf.numerator) / pf.denominator - 1)
        he1, he2, he3, he4 = z, z ** 2 - 1, z ** 3 - 3 * z, z ** 4 - 6 * z ** 2 + 3
        w = z + g[1] * he2 / 6
        if k >= 4:
            w += g[2] * he3 / 24 - g[1] ** 2 * (2 * he3 + he1) / 36
        if k >= 5:
            w += g[3] * he4 / 120 - g[1] * g[2] * (he4 + he2) / 24 + g[1] ** 3 * (12 * he4 + 19 * he2) / 324
        truth = k1 + sd * w
        got = sympy.N(q.xreplace({p: sympy.Rational(pf.numerator, pf.denominator)}), 40)
        gotm = mpmath.mpf(str(sympy.re(got)))
        if abs(gotm - truth) > mpmath.mpf(10) ** -25 * max(1, abs(truth)):
            return dict(base, status="violation", bucket="cornish_fisher", detail={"cumulants": case["cumulants"], "p": pv, "polar": str(got), "truth": mpmath.nstr(truth, 30)})
    return dict(base, status="ok")


def classify(case, verdict):
    # finding C11-F1: the lower bound (E(M)-a)**2 / E((M-a)**2) is 0/0 where M equals a almost surely; the simplified closed form prints 1 there
    if verdict.get("bucket") == "lower_tail_bound_invalid" and (verdict.get("detail") or {}).get("point_mass_at_threshold"):
        return "lower_bound_point_mass_at_threshold"
    return None


def sample_repr(case, verdict):
    s = {k: v for k, v in case.items() if k not in ("prog", "meta")}
    if "prog" in case:
        s["program"] = L.render_program(case["prog"])
    s["status"] = verdict["status"]
    return s
