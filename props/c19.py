"""
C19 - texts that denote the same loop yield the same analysis; ill-formed text and invalid probability vectors are rejected.

(a) one AST, two renderings differing only in the style knobs the statement lists -> closed forms agree at every n; one of them is also
    compared with the exact interpreter of the AST (pins the intended reading: Python precedence, remainder probability, parallel
    simultaneous assignment, decimal = exact rational).
(b) valid renderings damaged by one mutation operator whose result is outside syntax.lark by inspection -> Parser().parse_string must raise;
    choices with negative constant probabilities or a sum > 1 -> must be rejected (parse or normalisation).
"""
import copy
import os
import re
from fractions import Fraction

from hypothesis import strategies as st

from lib import gen, lang as L, refsem, polar_driver as pd, common

PROPERTY_ID = "C19"
RULE = (
    "equivalent renderings (55%): program from the C01 generator plus precedence-sensitive constants (2-3-4, -2**2, 2**3**2, 6/3*2, ...); rendering B differs "
    "from rendering A in >= 2 of: whitespace, comments, blank lines, redundant parentheses, decimal vs fraction literals, explicit vs omitted last probability, "
    "simultaneous assignment vs explicit temporaries, elif vs nested else-if.  ill-formed (25%): one of 11 structural mutation operators.  constant names (5%): a variable renamed to e, pi, oo, inf, nan, zoo, E or I must be rejected or analysed like the original.  invalid probability "
    "vectors (15%).  non-trivial (a) = the two texts differ and the program has a choice, a simultaneous assignment or a precedence-sensitive constant; "
    "(b) = the mutated text differs from the valid text; distinct by the texts"
)
ASSUMPTIONS = [
    "compound conditions are always fully parenthesised (syntax.lark gives && / || no precedence and the documentation is silent)",
    "mutation operators were chosen by inspection of syntax.lark so that every result is outside the grammar; texts such as '2x' are inside it and not used",
    "any exception raised while parsing counts as rejection; for invalid probability vectors any exception up to the end of normalisation counts",
]

RAWS = [["2-3-4", "-5"], ["-2**2", "-4"], ["2**3**2", "512"], ["6/3*2", "4"], ["2+3*4", "14"], ["-3**2", "-9"], ["8/2/2", "2"], ["2*3**2", "18"],
        ["1-2*3", "-5"], ["10-4+3", "9"], ["2**-1", "1/2"], ["1/2**2", "1/4"], ["(1+2)*3", "9"], ["2*(3-5)", "-4"], ["(-2)**2", "4"], ["3*(-2)**2", "12"], ["(-1)**3", "-1"], ["((-3))**2", "9"]]
OPERATORS = ["drop_end", "drop_colon", "open_paren", "dangling_operator", "two_statements_one_line", "elif_without_if", "bad_comparison",
             "empty_branch", "prob_without_alternative", "stray_brace", "drop_while"]


CONSTANT_NAMES = ["e", "pi", "oo", "inf", "nan", "zoo", "E", "I"]
GENERATED_LIKE = ["_t0", "_t1", "_old0", "_r0"]  # what get_unique_var hands out first in a fresh process (finding C19-F1)


def rename_variable(node, old, new):
    """every occurrence of the variable name `old` in an AST (targets, uses, simultaneous lists, function arguments); tags never equal a variable name"""
    if isinstance(node, list):
        return [rename_variable(x, old, new) for x in node]
    if isinstance(node, dict):
        return {(new if k == old else k): rename_variable(v, old, new) for k, v in node.items()}
    return new if node == old else node


def budget(tier):
    ex = int(os.environ.get("VERIF_EXAMPLES", "0"))
    if tier == "quick":
        return dict(shards=16, examples=ex or 40, shrink_calls=40, shard_timeout=1500, time_budget=110)
    return dict(shards=16, examples=ex or 5000, shrink_calls=300, shard_timeout=6 * 3600, time_budget=1500)


@st.composite
def cases(draw, tier="quick"):
    r = draw(st.integers(0, 19))
    profile = draw(st.sampled_from(["discrete"] * 4 + ["param"] * 3 + ["mixed"] * 2 + ["guarded"]))
    prog, meta = draw(gen.programs(profile, uninit_ok=False, max_body=3))
    if r <= 10:
        # precedence-sensitive constants
        nraw = draw(st.integers(0, 2))
        targets = meta["num"] or []
        for _ in range(nraw):
            if not targets:
                break
            x = draw(st.sampled_from(targets))
            raw = draw(st.sampled_from(RAWS))
            form = draw(st.integers(0, 2))
            e = ["raw", raw[0], raw[1]]
            if form == 1:
                e = ["add", L.var(x), e]
            elif form == 2:
                e = ["sub", ["mul", L.num(2), L.var(x)], e]
            prog["body"].insert(draw(st.integers(0, len(prog["body"]))), ["assign", x, ["expr", e]])
        goals = draw(gen.goals_for(prog, meta, max_goals=2))
        knobs = draw(st.lists(st.sampled_from(["whitespace", "comments", "blank_lines", "parens", "decimals", "last_prob", "temporaries", "nested_else"]),
                              min_size=2, max_size=5, unique=True))
        return {"what": "equivalent", "prog": prog, "goals": goals, "knobs": knobs, "points": draw(gen.param_points(prog, 1))}
    if r <= 15:
        return {"what": "illformed", "prog": prog, "operator": draw(st.sampled_from(OPERATORS)), "pos": draw(st.integers(0, 50))}
    if r == 16:
        # a program variable that carries the name of a constant of the computer algebra system
        assigned = sorted(L.stmts_assigned(prog["body"]))
        old = draw(st.sampled_from(assigned))
        goals = [{old: 1}] + draw(gen.goals_for(prog, meta, max_goals=1))
        return {"what": "constant_name", "prog": prog, "goals": goals, "old": old, "new": draw(st.sampled_from(CONSTANT_NAMES + GENERATED_LIKE)),
                "points": draw(gen.param_points(prog, 1))}
    kind = draw(st.sampled_from(["negative", "sum_gt_1", "explicit_sum_gt_1", "implicit_negative_three", "explicit_sum_lt_1"]))
    target = draw(st.sampled_from((meta["num"] or []) + list(meta["fin"]) or ["x"]))
    return {"what": "badprob", "prog": prog, "kind": kind, "var": target, "pos": draw(st.integers(0, 50))}


def strategy(tier):
    return cases(tier)


# ------------------------------------------------------------------ meaning-preserving rewritings


def toggle_last_prob(stmts):
    out = []
    for s in copy.deepcopy(stmts):
        if s[0] == "assign" and s[2][0] == "choice":
            s[2] = _toggle(s[2])
        elif s[0] == "simult":
            s[2] = [(_toggle(r) if r[0] == "choice" else r) for r in s[2]]
        elif s[0] == "if":
            s[1] = [[c, toggle_last_prob(b)] for c, b in s[1]]
            if s[2] is not None:
                s[2] = toggle_last_prob(s[2])
        out.append(s)
    return out


def _toggle(r):
    es, ps = r[1], r[2]
    if len(ps) == len(es):
        return ["choice", es, ps[:-1]]
    if all(p[0] == "num" for p in ps):
        return ["choice", es, ps + [L.num(1 - sum(Fraction(p[1]) for p in ps))]]
    last = L.num(1)
    for p in ps:
        last = ["sub", last, p]
    return ["choice", es, ps + [last]]


def simult_to_temporaries(stmts, counter):
    out = []
    for s in copy.deepcopy(stmts):
        if s[0] == "simult":
            temps = []
            for r in s[2]:
                counter[0] += 1
                temps.append(f"tq{counter[0]}")
            for tv, r in zip(temps, s[2]):
                out.append(["assign", tv, r])
            for v, tv in zip(s[1], temps):
                out.append(["assign", v, ["expr", L.var(tv)]])
            continue
        if s[0] == "if":
            s[1] = [[c, simult_to_temporaries(b, counter)] for c, b in s[1]]
            if s[2] is not None:
                s[2] = simult_to_temporaries(s[2], counter)
        out.append(s)
    return out


def elif_to_nested(stmts):
    out = []
    for s in copy.deepcopy(stmts):
        if s[0] == "if":
            branches = [[c, elif_to_nested(b)] for c, b in s[1]]
            els = elif_to_nested(s[2]) if s[2] is not None else None
            node = None
            for c, b in reversed(branches):
                if node is None:
                    node = ["if", [[c, b]], els]
                else:
                    node = ["if", [[c, b]], [node]]
            out.append(node)
        else:
            out.append(s)
    return out


def render_variant(prog, knobs):
    p = copy.deepcopy(prog)
    if "last_prob" in knobs:
        p["init"], p["body"] = toggle_last_prob(p["init"]), toggle_last_prob(p["body"])
    if "temporaries" in knobs:
        cnt = [0]
        p["init"], p["body"] = simult_to_temporaries(p["init"], cnt), simult_to_temporaries(p["body"], cnt)
    if "nested_else" in knobs:
        p["body"] = elif_to_nested(p["body"])
    style = {"comments": "comments" in knobs, "blank_lines": "blank_lines" in knobs, "parens_atoms": "parens" in knobs, "decimals": "decimals" in knobs}
    text = L.render_program(p, style)
    if "whitespace" in knobs:
        text = "\n".join(("  " + ln.replace(" = ", "   =  ").replace(" + ", "  +  ") + "   " if ln.strip() else ln) for ln in text.split("\n"))
        text = "\n\n" + text + "\n\n"
    return text


# ------------------------------------------------------------------ damaging operators


def damage(text, op, pos):
    lines = text.rstrip("\n").split("\n")
    body_idx = [i for i, ln in enumerate(lines) if ln.startswith("    ") and " = " in ln]
    if op == "drop_end":
        idx = [i for i, ln in enumerate(lines) if ln.strip() == "end"]
        lines.pop(idx[pos % len(idx)])
    elif op == "drop_colon":
        idx = [i for i, ln in enumerate(lines) if ln.rstrip().endswith(":")]
        i = idx[pos % len(idx)]
        lines[i] = lines[i].rstrip()[:-1]
    elif op == "open_paren":
        i = body_idx[pos % len(body_idx)]
        lines[i] = lines[i].replace(" = ", " = (", 1)
    elif op == "dangling_operator":
        i = body_idx[pos % len(body_idx)]
        lines[i] = lines[i] + [" +", " *", " -", " **", " /"][pos % 5]
    elif op == "two_statements_one_line":
        idx = [i for i in range(len(lines) - 1) if " = " in lines[i] and " = " in lines[i + 1]]
        if not idx:
            i = body_idx[pos % len(body_idx)]
            lines[i] = lines[i] + " " + lines[i].strip()
        else:
            i = idx[pos % len(idx)]
            lines[i] = lines[i] + " " + lines[i + 1].strip()
            lines.pop(i + 1)
    elif op == "elif_without_if":
        idx = [i for i, ln in enumerate(lines) if ln.strip().startswith("if ")]
        if idx:
            i = idx[pos % len(idx)]
            lines[i] = lines[i].replace("if ", "elif ", 1)
        else:
            i = body_idx[pos % len(body_idx)]
            lines.insert(i, "    elif true:")
    elif op == "bad_comparison":
        i = [i for i, ln in enumerate(lines) if ln.startswith("while ")][0]
        lines[i] = "while x " + ["=<", "<>", "=>", "!=", "==="][pos % 5] + " 0:"
    elif op == "empty_branch":
        i = body_idx[pos % len(body_idx)]
        lines.insert(i, "    if true:")
        lines.insert(i + 1, "    end")
    elif op == "prob_without_alternative":
        i = body_idx[pos % len(body_idx)]
        lines[i] = lines[i].split(" = ")[0] + " = 1 {1/2}"
    elif op == "stray_brace":
        i = body_idx[pos % len(body_idx)]
        lines[i] = lines[i] + [" }", " {", " {1/2", " 1/2}"][pos % 4]
    elif op == "drop_while":
        i = [i for i, ln in enumerate(lines) if ln.startswith("while ")][0]
        lines[i] = lines[i][len("while "):]
    return "\n".join(lines) + "\n"


def bad_choice(kind, var):
    v = var
    return {
        "negative": f"{v} = 1 {{-1/2}} 0",
        "sum_gt_1": f"{v} = 1 {{3/2}} 0",
        "explicit_sum_gt_1": f"{v} = 1 {{1/2}} 0 {{3/4}}",
        "implicit_negative_three": f"{v} = 1 {{2/3}} 2 {{2/3}} 0",
        "explicit_sum_lt_1": f"{v} = 1 {{1/4}} 0 {{1/4}}",
    }[kind]


# ------------------------------------------------------------------ run


def _analyse(text, goals, tl):
    with pd.time_limit(tl):
        an = pd.Analysis(text)
        out = {}
        for mono in goals:
            out[pd.monomial_to_str(mono)] = an.moment(mono)
        return out


def run_case(case, tier="quick"):
    prog = case["prog"]
    key = common.case_key(case)
    tl = 12 if tier == "quick" else 90
    text = L.render_program(prog)
    if case["what"] == "illformed":
        tags = ["illformed", "op:" + case["operator"]]
        base = {"key": key, "tags": tags}
        try:
            bad = damage(text, case["operator"], case["pos"])
        except (IndexError, ZeroDivisionError):
            return dict(base, status="gave_up", bucket="operator_not_applicable")
        base["nontrivial"] = bad != text
        try:
            with pd.time_limit(tl):
                pd.set_settings()
                p = pd.parse(bad)
        except pd.CaseTimeout:
            return dict(base, status="inconclusive", bucket="time_limit")
        except Exception as e:
            return dict(base, status="ok", counters={f"rejected_with:{type(e).__name__}": 1})
        return dict(base, status="violation", bucket="illformed_text_accepted:" + case["operator"],
                    detail={"text": bad, "operator": case["operator"], "parsed_as": str(p)})
    if case["what"] == "badprob":
        tags = ["badprob", "kind:" + case["kind"]]
        base = {"key": key, "tags": tags, "nontrivial": True}
        lines = text.rstrip("\n").split("\n")
        idx = [i for i, ln in enumerate(lines) if ln.startswith("    ")]
        i = idx[case["pos"] % len(idx)] if idx else len(lines) - 1
        lines.insert(i, "    " + bad_choice(case["kind"], case["var"]))
        bad = "\n".join(lines) + "\n"
        try:
            with pd.time_limit(tl):
                pd.set_settings()
                p = pd.normalize(pd.parse(bad))
        except pd.CaseTimeout:
            return dict(base, status="inconclusive", bucket="time_limit")
        except Exception as e:
            return dict(base, status="ok", counters={f"rejected_with:{type(e).__name__}": 1})
        if case["kind"] == "explicit_sum_lt_1":
            # the statement only requires rejection of negative probabilities and sums above 1
            return dict(base, status="ok", counters={"sum_below_1_accepted": 1})
        return dict(base, status="violation", bucket="invalid_probabilities_accepted:" + case["kind"], detail={"text": bad, "parsed_as": str(p)})
    if case["what"] == "constant_name":
        return _constant_name(case, key, text, tl)
    # ---- equivalent renderings
    knobs = case["knobs"]
    tags = ["equivalent"] + ["knob:" + k for k in knobs] + L.count_constructs(prog)
    base = {"key": key, "tags": tags}
    textA = text
    textB = render_variant(prog, knobs)
    has_raw = "raw" in str(prog["body"])
    if has_raw:
        tags.append("precedence_constant")
    base["nontrivial"] = textA != textB and (has_raw or any(t in tags for t in ("choice", "simult", "elif")))
    try:
        resA = _analyse(textA, case["goals"], tl)
    except pd.CaseTimeout:
        return dict(base, status="inconclusive", bucket="polar_time_limit")
    except Exception as e:
        b = pd.refusal_bucket(e)
        if "inputparser" in b or "lark" in type(e).__module__:
            # the canonical rendering of a generated program is inside the documented syntax: a parse error is a violation
            return dict(base, status="violation", bucket="valid_text_rejected_by_parser:" + type(e).__name__,
                        detail={"textA": textA, "error": str(e)[:300]})
        return dict(base, status="refusal", bucket=b, detail=str(e)[:200])
    try:
        resB = _analyse(textB, case["goals"], tl)
    except pd.CaseTimeout:
        return dict(base, status="inconclusive", bucket="polar_time_limit")
    except Exception as e:
        b = pd.refusal_bucket(e)
        if "inputparser" in b or "lark" in type(e).__module__:
            # the rewritten text is inside the documented syntax: a parse error is a violation
            return dict(base, status="violation", bucket="variant_rejected_by_parser:" + type(e).__name__,
                        detail={"textA": textA, "textB": textB, "knobs": knobs, "error": str(e)[:300]})
        # refused later in the pipeline (e.g. the nested-if refusal listed under C18): no closed form to compare
        return dict(base, status="refusal", bucket="variant:" + b, detail=str(e)[:200])
    env = case["points"][0] if case["points"] else {}
    un = {v: Fraction(common.UNINIT_VALUES[i % 5]) for i, v in enumerate(common.uninit_vars(prog))}
    subs = common.polar_subs(env, un)
    maxcase = max([pd.max_special_case(r[0]) for r in resA.values()] + [pd.max_special_case(r[0]) for r in resB.values()])
    N = min(8, maxcase + 3)
    try:
        with pd.time_limit(tl * 3):
            for k in resA:
                for n in range(N + 1):
                    try:
                        a = pd.eval_closed_form(resA[k][0], n, subs)
                        b = pd.eval_closed_form(resB[k][0], n, subs)
                    except ValueError:
                        continue
                    except KeyError as e:
                        return dict(base, status="gave_up", bucket="free_symbols")
                    same = pd.values_equal(b, a) if isinstance(a, Fraction) else (a == b or abs(complex(a - b)) < 1e-40)
                    if not same:
                        return dict(base, status="violation", bucket="renderings_disagree", nontrivial=True,
                                    detail={"textA": textA, "textB": textB, "knobs": knobs, "goal": k, "n": n, "A": common.fmt(a), "B": common.fmt(b),
                                            "formA": str(resA[k][0])[:300], "formB": str(resB[k][0])[:300]})
            # the intended reading: rendering A against the exact interpreter of the AST
            try:
                runs = common.oracle_runs(prog, case["points"][:1], N, max_states=5000)
                for k, (expr, exact) in resA.items():
                    mono = [m for m in case["goals"] if pd.monomial_to_str(m) == k][0]
                    bad, _ = common.compare_closed_form(expr, mono, runs, N)
                    if bad is not None:
                        return dict(base, status="violation", bucket="rendering_differs_from_intended_reading", nontrivial=True,
                                    detail=dict(bad, text=textA, goal=k, closed_form=str(expr)[:300]))
            except refsem.OracleGiveUp:
                tags.append("oracle_gave_up")
    except pd.CaseTimeout:
        return dict(base, status="inconclusive", bucket="evaluation_time_limit")
    return dict(base, status="ok")


def _constant_name(case, key, text, tl):
    """renaming a variable must not change the analysis: a name the CAS reads as a constant is either rejected or treated as the variable it is"""
    old, new = case["old"], case["new"]
    tags = ["constant_name" if not new.startswith("_") else "generated_like_name", "name:" + new]
    kind = "constant_name" if not new.startswith("_") else "generated_like_name"
    base = {"key": key, "tags": tags, "nontrivial": True}
    progB = rename_variable(case["prog"], old, new)
    goalsB = [rename_variable(g, old, new) for g in case["goals"]]
    textB = L.render_program(progB)
    detail = {"text": textB, "variable": new, "original_text": text}
    # the renamed text first: this forked process has not handed out any generated name yet, exactly like a command-line run on that file
    errB = None
    try:
        pd.set_settings()
        resB = _analyse(textB, goalsB, tl)
    except pd.CaseTimeout:
        return dict(base, status="inconclusive", bucket="polar_time_limit")
    except Exception as e:
        if "lark" in type(e).__module__ or "inputparser" in pd.refusal_bucket(e):
            return dict(base, status="ok", counters={f"{kind}_rejected_with:{type(e).__name__}": 1})
        errB = pd.refusal_bucket(e)
    try:
        resA = _analyse(text, case["goals"], tl)
    except pd.CaseTimeout:
        return dict(base, status="inconclusive", bucket="polar_time_limit")
    except Exception as e:
        return dict(base, status="refusal", bucket=pd.refusal_bucket(e), detail=str(e)[:200])
    if errB is not None:
        return dict(base, status="violation", bucket=kind + "_accepted_then_failed", detail=dict(detail, error=errB))
    env = case["points"][0] if case["points"] else {}
    subs = common.polar_subs(env, {})
    try:
        with pd.time_limit(tl * 3):
            for gA, gB in zip(case["goals"], goalsB):
                ea, eb = resA[pd.monomial_to_str(gA)][0], resB[pd.monomial_to_str(gB)][0]
                for n in range(0, 5):
                    try:
                        a = pd.eval_closed_form(ea, n, subs)
                    except (ValueError, KeyError):
                        continue
                    try:
                        b = pd.eval_closed_form(eb, n, subs)
                        same = pd.values_equal(b, a) if isinstance(a, Fraction) else (a == b or abs(complex(a - b)) < 1e-40)
                    except (ValueError, KeyError, TypeError):
                        same = False
                    if not same:
                        return dict(base, status="violation", bucket=kind + "_reinterpreted",
                                    detail=dict(detail, goal=pd.monomial_to_str(gB), n=n, with_original_name=common.fmt(a), closed_form=str(eb)[:200]))
    except pd.CaseTimeout:
        return dict(base, status="inconclusive", bucket="evaluation_time_limit")
    return dict(base, status="ok", counters={kind + "_treated_as_variable": 1})


def classify(case, verdict):
    # finding C19-F1: a user variable called like a generated one (_t1, _old0, ...) is merged with it
    if (verdict.get("bucket") or "").startswith("generated_like_name_"):
        return "user_variable_named_like_generated"
    return None


def sample_repr(case, verdict):
    s = {"what": case["what"], "status": verdict["status"], "tags": verdict["tags"]}
    if case["what"] == "equivalent":
        s["textA"] = L.render_program(case["prog"])
        s["textB"] = render_variant(case["prog"], case["knobs"])
    elif case["what"] == "illformed":
        try:
            s["text"] = damage(L.render_program(case["prog"]), case["operator"], case["pos"])
        except Exception:
            pass
    elif case["what"] == "constant_name":
        s["text"] = L.render_program(rename_variable(case["prog"], case["old"], case["new"]))
    else:
        s["choice"] = bad_choice(case["kind"], case["var"])
    return s
