"""
C14 - synthesized invariants and solvable loops agree with the unsolvable loop.

Generator: randomised instances of unsolvable-loop families (squares, non-linear Markov, degree-k cancellation, Fibonacci trace) with
an invariant by construction, plus perturbed instances without one; candidate sets, degrees 1-3, k = 1 and general k; symbolic
(uninitialised) and numeric initial values.
Oracle: exact interpreter on the source loop: for every returned pair (Q, f): E(Q(state_n)) = f(n) for n = 0..N after substituting random
rationals for the free _u symbols and the x0 symbols.  For synth_loop: every synthesized program is read back and interpreted; the
sequences of retained variables and of the fresh _s variable must equal E(var)(n) and E(Q)(n) of the original loop.
"""
import os
from fractions import Fraction

from hypothesis import strategies as st

from lib import lang as L, refsem, polar_driver as pd, common, snapshot

PROPERTY_ID = "C14"
RULE = (
    "instances of four unsolvable-loop families with randomised coefficients, signs, noise (deterministic toggle, Bernoulli, choice), optional extra effective variable; "
    "candidate set = the defective variables (or a subset), inv_deg in {1,2,3}, k in {None, 1}; 25% of the instances are perturbed so that no invariant of the "
    "requested degree exists; non-trivial = synthesis returned at least one pair with non-constant Q; distinct by (program, candidates, degree, k)"
)
ASSUMPTIONS = [
    "E(Q(state_n)) from lib/refsem.py on the source loop, n <= 4 (values square in every iteration)",
    "free symbols of a returned pair (_u.., x0, ..) are replaced by fixed rationals, the same in Q and in f",
    "for synthesized solvable loops only first moments of retained variables and of the combination variable are compared (the tool does not claim more)",
]

CO = ["1", "2", "3", "1/2", "-1", "-2", "3/2"]
FREE_VALUES = ["2/3", "5/7", "-3/5", "7/4", "11/9", "-2/7", "4/3", "9/5"]


def budget(tier):
    ex = int(os.environ.get("VERIF_EXAMPLES", "0"))
    if tier == "quick":
        return dict(shards=16, examples=ex or 20, shrink_calls=10, shard_timeout=1500, time_budget=110)
    return dict(shards=16, examples=ex or 600, shrink_calls=60, shard_timeout=6 * 3600, time_budget=1500)


def E(s):
    """tiny expression parser for templates: builds the own AST from a python-like string using sympy as a tokenizer"""
    import sympy

    return snapshot.expr_to_ast(sympy.sympify(s), {"x", "y", "z", "w", "a", "b", "c"})


@st.composite
def noise(draw):
    kind = draw(st.sampled_from(["toggle", "bernoulli", "choice", "none", "counter"]))
    if kind == "counter":
        # an effective variable whose expectation is a non-constant polynomial in n
        return [["assign", "z", ["expr", E("z + 1")]]], [["assign", "z", ["expr", L.num(draw(st.sampled_from(["0", "1", "-2"])))]]]
    if kind == "toggle":
        return [["assign", "z", ["expr", E("1 - z")]]], [["assign", "z", ["expr", L.num(0)]]]
    if kind == "bernoulli":
        return [["assign", "z", ["draw", "Bernoulli", [L.num(draw(st.sampled_from(["1/2", "1/3", "3/4"])))]]]], [["assign", "z", ["expr", L.num(0)]]]
    if kind == "choice":
        return [["assign", "z", ["choice", [L.num(1), L.num(-1)], [L.num("1/2")]]]], [["assign", "z", ["expr", L.num(0)]]]
    return [], []


@st.composite
def cases(draw, tier="quick"):
    fam = draw(st.sampled_from(["squares", "squares", "markov", "degk", "degk", "fibtrace"]))
    perturbed = draw(st.integers(0, 3)) == 0
    init = []
    nz_body, nz_init = draw(noise())
    zt = "z" if nz_body else "0"
    if fam == "squares":
        al, be, ga = (draw(st.sampled_from(CO)) for _ in range(3))
        if draw(st.integers(0, 2)) == 0:
            al = "1"  # Q(n+1) = Q(n) + effective part: solved by summing
        f1, f2 = draw(st.sampled_from(["0", "1", "2", "-1"])), draw(st.sampled_from(["0", "1", "2", "3"]))
        al2 = al if not perturbed else draw(st.sampled_from([c for c in CO if c != al]))
        body = nz_body + [["assign", "x", ["expr", E(f"({al})*x + ({be})*y**2 + ({f1})*{zt}")]],
                          ["assign", "y", ["expr", E(f"({al2})*y - ({ga})*y**2 + ({f2})*{zt}")]]]
        cands = ["x", "y"]
        deg = draw(st.sampled_from([1, 1, 2]))
    elif fam == "markov":
        c1, c2 = draw(st.sampled_from(["1", "2/3", "1/2", "2"])), draw(st.sampled_from(["1", "2/3", "1/2", "2"]))
        a = draw(st.sampled_from(["1/3", "1/2", "1/4"]))
        c1b = c1 if not perturbed else "3"
        br0 = ["simult", ["x", "y"], [["expr", E(f"x + ({c1})*x*y")], ["expr", E(f"({a})*x + (1 - ({a}))*y + ({c1b})*x*y")]]]
        br1 = ["simult", ["x", "y"], [["expr", E(f"x + y + ({c2})*x*y")], ["expr", E(f"2*y + ({c2})*x*y")]]]
        body = [["assign", "z", ["draw", "Bernoulli", [L.num(draw(st.sampled_from(["1/2", "1/3"])))]]],
                ["if", [[["cmp", L.var("z"), "==", L.num(0)], [br0]]], [br1]]]
        nz_init = []
        cands = ["x", "y"]
        deg = draw(st.sampled_from([1, 1, 2]))
    elif fam == "degk":
        kk = draw(st.sampled_from([2, 3, 5]))
        a, b = draw(st.sampled_from(["2", "3", "1", "-1"])), draw(st.sampled_from(["3", "2", "1", "-2"]))
        b2 = b if not perturbed else "5"
        body = nz_body + [["simult", ["x", "y"], [["expr", E(f"({a})*x**{kk} + {zt} + 1")], ["expr", E(f"({b2})*x**{kk} + 2*{zt}" + (f" + y**{kk}" if perturbed else ""))]]]]
        cands = ["x", "y"]
        deg = 1
    else:
        body = [["simult", ["x", "y", "w"], [["expr", E("y")], ["expr", E("w")], ["expr", E("2*y*w - x" if not perturbed else "2*y*w - 2*x")]]]]
        nz_init = []
        cands = ["x", "y", "w"]
        deg = 3
    # initial values: numeric or left uninitialised (symbolic x0)
    for vi, v in enumerate(cands):
        r = draw(st.integers(0, 5))
        if r == 5:
            # random initial value (choice), so that E(x0**2) != E(x0)**2
            init.append(["assign", v, ["choice", [L.num(draw(st.sampled_from(["1", "2", "0"]))), L.num(draw(st.sampled_from(["3", "-1", "4"])))], [L.num("1/2")]]])
        elif r == 4 and vi > 0 and any(s_[1] == cands[vi - 1] for s_ in init):
            init.append(["assign", v, ["expr", ["add", L.var(cands[vi - 1]), L.num(1)]]])
        elif r >= 2:
            init.append(["assign", v, ["expr", L.num(draw(st.sampled_from(["1", "2", "-1", "1/2", "0", "3"])))]])
    prog = {"types": {}, "init": nz_init + init, "guard": ["true"], "body": body}
    if draw(st.integers(0, 4)) == 0 and len(cands) > 1 and fam != "fibtrace":
        cands = cands[:1]
    return {"family": fam, "perturbed": perturbed, "prog": prog, "candidates": cands, "deg": deg, "k": draw(st.sampled_from([None, None, 1])),
            "loop": draw(st.integers(0, 3)) == 0}


def strategy(tier):
    return cases(tier)


def _fraction_subs(expr, names_values):
    import sympy

    e = sympy.sympify(expr)
    rep = {}
    for s in e.free_symbols:
        if s.name in names_values:
            v = names_values[s.name]
            rep[s] = sympy.Rational(v.numerator, v.denominator)
    return e.xreplace(rep)


def run_case(case, tier="quick"):
    import sympy
    from symengine.lib.symengine_wrapper import sympify as se
    from unsolvable_analysis import UnsolvInvSynthesizer, SolvLoopSynthesizer

    prog = case["prog"]
    text = L.render_program(prog)
    key = common.case_key({k: case[k] for k in ("prog", "candidates", "deg", "k", "loop")})
    tags = ["fam:" + case["family"], f"deg={case['deg']}", f"k={case['k']}"] + (["perturbed"] if case["perturbed"] else []) + (["synth_loop"] if case["loop"] else [])
    base = {"key": key, "tags": tags}
    tl = 40 if tier == "quick" else 300
    try:
        with pd.time_limit(tl):
            pd.set_settings()
            program = pd.normalize(pd.parse(text))
            cands = [se(v) for v in case["candidates"]]
            # input domain: candidate variables are defective variables of the loop (as the CLI chooses them); with particular
            # initial values a family instance can degenerate into a solvable loop (y in {0,1} makes y**2 = y)
            if not {str(v) for v in cands} <= {str(v) for v in program.defective_variables}:
                return dict(base, status="gave_up", bucket="candidates_not_defective")
            if case["loop"]:
                sols, programs = SolvLoopSynthesizer.synth_loop(cands, case["deg"], program)
            else:
                sols = UnsolvInvSynthesizer.synth_inv(cands, case["deg"], program, case["k"])
                programs = []
    except pd.CaseTimeout:
        return dict(base, status="inconclusive", bucket="polar_time_limit")
    except RecursionError:
        return dict(base, status="inconclusive", bucket="recursion")
    except Exception as e:
        return dict(base, status="refusal", bucket=pd.refusal_bucket(e), detail=str(e)[:200])
    sols = sols or []
    if not sols:
        return dict(base, status="ok", counters={"no_solution": 1})
    tags.append("solutions_found")
    N = 3 if case["family"] in ("degk", "fibtrace") else 4
    uv = common.uninit_vars(prog)
    un = {v: Fraction(FREE_VALUES[i % len(FREE_VALUES)]) for i, v in enumerate(uv)}
    try:
        with pd.time_limit(tl):
            it = refsem.Interp(prog, uninit=un, max_states=4000)
            dists = it.run(N)
    except refsem.OracleGiveUp as e:
        return dict(base, status="gave_up", bucket=str(e)[:60])
    except pd.CaseTimeout:
        return dict(base, status="gave_up", bucket="oracle_time_limit")
    names = {v + "0": val for v, val in un.items()}
    pvars = sorted(L.program_vars(prog))
    nontrivial = False
    ni = sympy.Symbol("n", integer=True)
    for idx, (Q, f) in enumerate(sols):
        Qs, fs_ = sympy.sympify(Q), sympy.sympify(f)
        free = sorted({s.name for s in (Qs.free_symbols | fs_.free_symbols) if s.name.startswith("_")})
        vals = dict(names)
        for i, nm in enumerate(free):
            vals[nm] = Fraction(FREE_VALUES[(i + 3) % len(FREE_VALUES)])
        Qn = _fraction_subs(Qs, vals)
        fn = _fraction_subs(fs_, vals)
        try:
            P = sympy.Poly(sympy.expand(Qn), *[sympy.Symbol(v) for v in pvars])
        except sympy.PolynomialError:
            return dict(base, status="violation", bucket="candidate_not_polynomial", detail={"program": text, "Q": str(Q)})
        if P.total_degree() > 0:
            nontrivial = True
        for n in range(N + 1):
            truth = Fraction(0)
            for mon, co in P.terms():
                mono = {v: int(e) for v, e in zip(pvars, mon) if e}
                if co.free_symbols:
                    return dict(base, status="violation", bucket="unexpected_symbols", detail={"program": text, "Q": str(Q), "f": str(f), "coefficient": str(co)})
                c = Fraction(int(co.p), int(co.q))
                truth += c * (refsem.expectation(dists[n], mono, it) if mono else 1)
            val = fn.xreplace({ni: sympy.Integer(n), sympy.Symbol("n"): sympy.Integer(n)})
            val = sympy.simplify(val) if not val.is_Rational else val
            if val.free_symbols or not val.is_Rational:
                try:
                    ok = pd.values_equal(pd.robust_numeric(val), truth)
                except Exception:
                    return dict(base, status="violation", bucket="closed_form_not_a_number", detail={"program": text, "Q": str(Q), "f": str(f), "n": n, "value": str(val)})
            else:
                ok = Fraction(int(val.p), int(val.q)) == truth
            if not ok:
                return dict(base, status="violation", bucket=f"invariant_closed_form_wrong:{case['family']}", nontrivial=True,
                            detail={"program": text, "candidates": case["candidates"], "deg": case["deg"], "k": case["k"], "Q": str(Q), "f": str(f), "n": n,
                                    "polar": str(val), "truth": L.fs(truth), "substitution": {k: L.fs(v) for k, v in vals.items()}})
    # synthesized solvable loops
    checked_loops = 0
    if case["loop"] and programs:
        try:
            with pd.time_limit(tl):
                for pi, sp in enumerate(programs):
                    ast = snapshot.program_to_ast(sp)
                    # symbols like x0 in the synthesized program's initial values
                    syms = sorted(L.program_symbols(ast))
                    env = {}
                    free_vals = dict(names)
                    for i, nm in enumerate(s for s in syms if s not in free_vals):
                        free_vals[nm] = Fraction(FREE_VALUES[(i + 3) % len(FREE_VALUES)])
                    ast2 = L.subst_syms_program(ast, free_vals)
                    it2 = refsem.Interp(ast2, uninit={}, max_states=4000)
                    d2 = it2.run(N)
                    for v in sorted(L.stmts_assigned(ast2["body"])):
                        if v.startswith("_t"):
                            continue
                        if v.startswith("_s"):
                            # combination variable: must follow E(Q) of the matching solution
                            Qs = sympy.sympify(sols[pi][0]) if pi < len(sols) else None
                            if Qs is None:
                                continue
                            Qn = _fraction_subs(Qs, free_vals)
                            P = sympy.Poly(sympy.expand(Qn), *[sympy.Symbol(x) for x in pvars])
                            if any(co.free_symbols for _, co in P.terms()):
                                continue
                            for n in range(N + 1):
                                truth = Fraction(0)
                                for mon, co in P.terms():
                                    mono = {x: int(e) for x, e in zip(pvars, mon) if e}
                                    truth += Fraction(int(co.p), int(co.q)) * (refsem.expectation(dists[n], mono, it) if mono else 1)
                                got = refsem.expectation(d2[n], {v: 1}, it2)
                                if got != truth:
                                    return dict(base, status="violation", bucket="synthesized_loop_combination_variable", nontrivial=True,
                                                detail={"program": text, "synthesized": str(sp), "variable": v, "n": n, "got": L.fs(got), "truth": L.fs(truth)})
                        elif v in pvars:
                            for n in range(N + 1):
                                truth = refsem.expectation(dists[n], {v: 1}, it)
                                got = refsem.expectation(d2[n], {v: 1}, it2)
                                if got != truth:
                                    return dict(base, status="violation", bucket="synthesized_loop_retained_variable", nontrivial=True,
                                                detail={"program": text, "synthesized": str(sp), "variable": v, "n": n, "got": L.fs(got), "truth": L.fs(truth)})
                    checked_loops += 1
        except refsem.OracleGiveUp as e:
            tags.append("loop_oracle_gave_up")
        except pd.CaseTimeout:
            tags.append("loop_oracle_gave_up")
    return dict(base, status="ok", nontrivial=nontrivial, counters={"pairs_checked": len(sols), "synthesized_loops_checked": checked_loops})


def classify(case, verdict):
    return None


def sample_repr(case, verdict):
    return {"program": L.render_program(case["prog"]), "candidates": case["candidates"], "deg": case["deg"], "k": case["k"], "synth_loop": case["loop"],
            "status": verdict["status"], "tags": verdict["tags"]}
