"""
C12 - simulation follows the same semantics and laws as the exact analysis.

structure: the simulator is run on the un-normalised parsed program once per *path* with all random sources scripted (depth-first
           enumeration of every resolution of the random choices, probability = product of the weights the code asked for); the induced
           pmf over states after each iteration must equal the exact interpreter's pmf of the same source program.
sampler:   for every family the scipy call made by Distribution.sample is intercepted; the distribution that was requested must have the
           moments get_moment(k) claims and a support inside get_support(); 200 real samples must lie in the declared support.
"""
import os
import random as _random
from fractions import Fraction

from hypothesis import strategies as st

from lib import gen, lang as L, refsem, polar_driver as pd, common, distref

PROPERTY_ID = "C12"
RULE = (
    "structure (70%): programs without symbolic parameters from the profiles discrete/guarded (continuous draws are replaced by a scripted two-point surrogate in "
    "both simulator and oracle), 1-3 iterations, all paths enumerated (<= 3000); sampler (30%): (family, parameters) for the seven continuous families and the three "
    "discrete ones; non-trivial structure case = >= 2 paths and a guard, an if or a simultaneous assignment; sampler case = non-default location/scale; distinct by the case"
)
ASSUMPTIONS = [
    "random sources patched from outside: random.choices, random.choice and the rvs methods of the scipy.stats distribution objects used by program/distribution/*.py",
    "states are compared after rounding to 1e-9 (the simulator computes with floats), probabilities with tolerance 1e-9",
    "the sampler check compares the distribution requested from scipy (moments to 1e-9, support), not sample statistics; the 200 real samples only have to lie in the declared support",
]


def budget(tier):
    ex = int(os.environ.get("VERIF_EXAMPLES", "0"))
    if tier == "quick":
        return dict(shards=16, examples=ex or 40, shrink_calls=40, shard_timeout=1500, time_budget=100)
    return dict(shards=16, examples=ex or 5000, shrink_calls=300, shard_timeout=6 * 3600, time_budget=1500)


POS = ["1", "2", "1/2", "4", "1/4", "3"]
LOC = ["0", "1", "-1", "2", "1/2", "-3"]


@st.composite
def cases(draw, tier="quick"):
    if draw(st.integers(0, 9)) <= 6:
        profile = draw(st.sampled_from(["discrete", "guarded", "mixed", "mixed"]))
        prog, meta = draw(gen.programs(profile, uninit_ok=False, max_body=3))
        return {"what": "structure", "prog": prog, "iterations": draw(st.integers(1, 3))}
    name = draw(st.sampled_from(["Normal", "Uniform", "Laplace", "DistExp", "Gamma", "Beta", "TruncNormal", "Bernoulli", "DiscreteUniform", "Categorical"]))
    if name == "Normal":
        ps = [draw(st.sampled_from(LOC)), draw(st.sampled_from(POS))]
    elif name == "Uniform":
        a = Fraction(draw(st.sampled_from(LOC)))
        ps = [L.fs(a), L.fs(a + Fraction(draw(st.sampled_from(POS))))]
    elif name == "Laplace":
        ps = [draw(st.sampled_from(LOC)), draw(st.sampled_from(POS))]
    elif name == "DistExp":
        ps = [draw(st.sampled_from(POS))]
    elif name == "Gamma":
        ps = [draw(st.sampled_from(POS)), draw(st.sampled_from(POS))]
    elif name == "Beta":
        ps = [draw(st.sampled_from(["1", "2", "3", "1/2"])), draw(st.sampled_from(["1", "2", "3", "1/2"]))]
        if draw(st.booleans()):
            ps.append(draw(st.sampled_from(["2", "3", "1/2"])))
    elif name == "TruncNormal":
        mu = Fraction(draw(st.sampled_from(LOC)))
        a = mu + Fraction(draw(st.sampled_from(["-2", "-1", "-1/2", "0", "1/2"])))
        ps = [L.fs(mu), draw(st.sampled_from(["1", "4", "1/4", "9"])), L.fs(a), L.fs(a + Fraction(draw(st.sampled_from(["1", "2", "1/2", "3"]))))]
    elif name == "Bernoulli":
        ps = [draw(st.sampled_from(["1/2", "1/3", "3/4"]))]
    elif name == "DiscreteUniform":
        a = draw(st.integers(-3, 3))
        ps = [str(a), str(a + draw(st.integers(0, 4)))]
    else:
        ps = draw(st.sampled_from([["1/2", "1/2"], ["1/4", "1/2", "1/4"], ["1/3", "1/3", "1/3"]]))
    return {"what": "sampler", "family": name, "params": ps}


def strategy(tier):
    return cases(tier)


# ------------------------------------------------------------------ scripted randomness


class PathOracle:
    def __init__(self):
        self.script = []
        self.pos = 0
        self.prob = 1.0
        self.widths = []

    def start(self):
        self.pos = 0
        self.prob = 1.0
        self.widths = []

    def choose(self, weights):
        """returns the index chosen at this point of the path"""
        tot = float(sum(weights))
        if self.pos < len(self.script):
            i = self.script[self.pos]
        else:
            i = 0
            self.script.append(0)
        # skip zero-weight options deterministically (they have probability 0)
        self.widths.append(len(weights))
        self.prob *= float(weights[i]) / tot
        self.pos += 1
        return i

    def advance(self):
        """next script in depth-first order; False when exhausted"""
        self.script = self.script[: len(self.widths)]
        while self.script:
            if self.script[-1] + 1 < self.widths[len(self.script) - 1]:
                self.script[-1] += 1
                return True
            self.script.pop()
        return False


def surrogate_points(name, loc):
    """two-point surrogate for continuous draws used identically by simulator patch and oracle: loc and loc + 1"""
    return [(Fraction(1, 2), loc), (Fraction(1, 2), loc + 1)]


class Patches:
    """context manager installing the scripted sources"""

    def __init__(self, oracle):
        self.o = oracle
        self.saved = []

    def __enter__(self):
        import scipy.stats as ss
        import simulation.simulator as simmod

        o = self.o

        def choices(population, weights=None, k=1):
            w = weights if weights is not None else [1] * len(population)
            return [population[o.choose(list(w))]]

        def choice(seq):
            return seq[o.choose([1] * len(seq))]

        self._set(_random, "choices", choices)
        self._set(_random, "choice", choice)

        def bern(p, *a, **k):
            return [0, 1][o.choose([1 - p, p])]

        self._set(ss.bernoulli, "rvs", bern)

        def two_point(locf):
            def f(*a, **k):
                loc = locf(*a, **k)
                return [loc, loc + 1][o.choose([0.5, 0.5])]

            return f

        self._set(ss.norm, "rvs", two_point(lambda loc=0, scale=1: loc))
        self._set(ss.uniform, "rvs", two_point(lambda loc=0, scale=1: loc))
        self._set(ss.laplace, "rvs", two_point(lambda scale=1, loc=0: loc))
        self._set(ss.expon, "rvs", two_point(lambda scale=1: 0.0))
        self._set(ss.gamma, "rvs", two_point(lambda a, scale=1: 0.0))
        self._set(ss.beta, "rvs", two_point(lambda a, b: 0.0))

        class NoBar:
            def __init__(self, *a, **k):
                pass

            def next(self):
                pass

            def finish(self):
                pass

        self._set(simmod, "Bar", NoBar)
        return self

    def _set(self, obj, name, val):
        had = name in getattr(obj, "__dict__", {})
        self.saved.append((obj, name, getattr(obj, name), had))
        setattr(obj, name, val)

    def __exit__(self, *a):
        for obj, name, old, had in reversed(self.saved):
            if had or isinstance(obj, type(_random)):
                setattr(obj, name, old)
            else:
                try:
                    delattr(obj, name)
                except AttributeError:
                    setattr(obj, name, old)
        return False


def oracle_surrogate(name, params):
    if name in ("Normal", "Uniform", "Laplace"):
        return surrogate_points(name, params[0])
    if name == "Beta" and len(params) == 3:
        # Beta.sample multiplies the scipy value by the scale parameter: the scripted values 0 and 1 become 0 and scale
        return [(Fraction(1, 2), Fraction(0)), (Fraction(1, 2), params[2])]
    return surrogate_points(name, Fraction(0))


def run_case(case, tier="quick"):
    key = common.case_key(case)
    if case["what"] == "sampler":
        return _sampler(case, key, tier)
    from simulation import Simulator

    prog = case["prog"]
    text = L.render_program(prog)
    iters = case["iterations"]
    tags = ["structure", f"iterations={iters}"] + L.count_constructs(prog)
    base = {"key": key, "tags": tags}
    tl = 30 if tier == "quick" else 200
    variables = sorted(L.program_vars(prog))
    try:
        with pd.time_limit(tl):
            pd.set_settings()
            program = pd.parse(text)
    except Exception as e:
        return dict(base, status="refusal", bucket=pd.refusal_bucket(e), detail=str(e)[:200])
    # ---- oracle
    try:
        it = refsem.Interp(prog, uninit={}, max_states=6000, surrogate=oracle_surrogate)
        dists = it.run(iters)
        truth = []
        for d in dists:
            pm = {}
            for pr, s in d:
                k = tuple(round(float(s.v[v].cval()), 9) if v in s.v else None for v in variables)
                pm[k] = pm.get(k, 0.0) + float(pr)
            truth.append(pm)
    except refsem.OracleGiveUp as e:
        return dict(base, status="gave_up", bucket=str(e)[:60])
    # ---- simulator, one run per path
    o = PathOracle()
    sim = [dict() for _ in range(iters + 1)]
    npaths = 0
    try:
        with pd.time_limit(tl * 2), Patches(o):
            while True:
                o.start()
                res = Simulator(iters).simulate(program, [], 1)
                run = res.samples[0]
                npaths += 1
                for n in range(iters + 1):
                    stt = {str(k): v for k, v in run[n].items()}
                    k = tuple(round(float(stt[v]), 9) if v in stt else None for v in variables)
                    sim[n][k] = sim[n].get(k, 0.0) + o.prob
                if npaths > 3000:
                    return dict(base, status="gave_up", bucket="too_many_paths")
                if not o.advance():
                    break
    except pd.CaseTimeout:
        return dict(base, status="inconclusive", bucket="time_limit")
    except Exception as e:
        return dict(base, status="refusal", bucket=pd.refusal_bucket(e), detail=str(e)[:200])
    base["nontrivial"] = npaths >= 2 and any(t in tags for t in ("guard", "if", "simult"))
    for n in range(iters + 1):
        keys = set(truth[n]) | set(sim[n])
        for k in keys:
            a, b = truth[n].get(k, 0.0), sim[n].get(k, 0.0)
            if abs(a - b) > 1e-9:
                return dict(base, status="violation", bucket="simulated_distribution_differs", nontrivial=True,
                            detail={"program": text, "iteration": n, "variables": variables, "state": list(k), "exact_probability": a, "simulated_probability": b,
                                    "paths": npaths})
    return dict(base, status="ok", counters={"paths": npaths})


def _sampler(case, key, tier):
    import numpy as np
    import scipy.stats as ss
    from program.distribution import distribution_factory

    name, ps = case["family"], case["params"]
    tags = ["sampler", name]
    base = {"key": key, "tags": tags, "nontrivial": ps not in (["0", "1"], ["1"], ["1/2"])}
    pd.set_settings()
    try:
        d = distribution_factory(name, list(ps))
    except Exception as e:
        return dict(base, status="refusal", bucket=pd.refusal_bucket(e), detail=str(e)[:200])
    fam = distref.to_family(name, ps)
    detail = {"family": name, "params": ps}
    sup = distref.support(fam)
    # 1. intercept the scipy request
    requested = {}
    objs = {"Normal": ss.norm, "Uniform": ss.uniform, "Laplace": ss.laplace, "DistExp": ss.expon, "Gamma": ss.gamma, "Beta": ss.beta, "TruncNormal": ss.truncnorm,
            "Bernoulli": ss.bernoulli}
    if name in objs:
        obj = objs[name]
        orig = obj.rvs

        def spy(*a, **k):
            requested["args"], requested["kwds"] = a, k
            return orig(*a, **k)

        obj.rvs = spy
        try:
            d.sample({})
        except Exception as e:
            return dict(base, status="refusal", bucket=pd.refusal_bucket(e), detail=str(e)[:200])
        finally:
            try:
                del obj.rvs
            except AttributeError:
                obj.rvs = orig
        if "args" in requested:
            a, k = requested["args"], requested["kwds"]
            scale_fix = float(Fraction(ps[2])) if (name == "Beta" and len(ps) == 3) else 1.0
            for order in (1, 2, 3):
                got = float(obj.moment(order, *a, **k)) * scale_fix ** order
                truth = distref.exact_moment(fam, order)
                if truth is None:
                    truth = float(distref.integral_expect(fam, lambda x: x ** order, dps=30))
                else:
                    truth = float(truth)
                if abs(got - truth) > 1e-7 * max(1.0, abs(truth)):
                    return dict(base, status="violation", bucket=f"sampler_draws_from_other_distribution:{name}",
                                detail=dict(detail, requested_args=[float(x) for x in a], requested_kwds={kk: float(v) for kk, v in k.items()}, order=order,
                                            requested_moment=got, true_moment=truth))
            lo_r, hi_r = obj.support(*a, **k)
            lo_r, hi_r = float(lo_r) * scale_fix, float(hi_r) * scale_fix
            if not distref.is_discrete(fam):
                lo, hi = sup
                if (lo is not None and lo_r < float(lo) - 1e-9) or (hi is not None and hi_r > float(hi) + 1e-9):
                    return dict(base, status="violation", bucket=f"sampler_support:{name}", detail=dict(detail, requested_support=[lo_r, hi_r], declared=str(sup)))
    # 2. real samples lie in the declared support
    np.random.seed(int(os.environ.get("VERIF_SEED", "1")) % (2 ** 32))
    _random.seed(int(os.environ.get("VERIF_SEED", "1")))
    declared = d.get_support()
    for _ in range(200):
        try:
            x = float(d.sample({}))
        except Exception as e:
            return dict(base, status="refusal", bucket=pd.refusal_bucket(e), detail=str(e)[:200])
        ok = False
        for s in declared:
            if isinstance(s, tuple):
                lo = float("-inf") if "oo" in str(s[0]) and "-" in str(s[0]) else float(s[0]) if "oo" not in str(s[0]) else float("-inf")
                hi = float("inf") if "oo" in str(s[1]) else float(s[1])
                if lo - 1e-12 <= x <= hi + 1e-12:
                    ok = True
            elif abs(float(s) - x) < 1e-12:
                ok = True
        if not ok:
            return dict(base, status="violation", bucket=f"sample_outside_declared_support:{name}", detail=dict(detail, sample=x, declared=str(declared)))
    return dict(base, status="ok")


def classify(case, verdict):
    return None


def sample_repr(case, verdict):
    if case["what"] == "structure":
        return {"program": L.render_program(case["prog"]), "iterations": case["iterations"], "status": verdict["status"], "tags": verdict["tags"]}
    return dict(case, status=verdict["status"])
