"""
C05 - inferred finite types contain every value a variable can ever take.

Oracle: the final normal form is read back and interpreted by the exact reference semantics in value-collecting mode (every value assigned
to every variable, original or auxiliary, in every iteration incl. iterations after the guard is false); the source program is interpreted
as well for the original variables at iteration boundaries.  Every collected value must be in the inferred Finite type.  The
"consequently" clause is checked directly: Finite.reduce_power and the arithmetised conditions evaluate correctly on all collected states.
"""
import os
from fractions import Fraction

from hypothesis import strategies as st

from lib import gen, lang as L, refsem, polar_driver as pd, common, snapshot

PROPERTY_ID = "C05"
RULE = (
    "8%: tiny lagging-copy programs (h = x placed before x is redrawn from a large or continuous support); otherwise programs from profiles discrete (29%), guarded (29%), mixed (29%), edge (14%) - guards that become false, variables assigned several times per iteration, "
    "draws inside branches; settings.type_fp_iterations in {1,2,3,10,100}; non-trivial = Polar typed at least one variable it introduced or the program "
    "has a guard or a branch; distinct by (program, fp iterations)"
)
ASSUMPTIONS = [
    "reachable values come from lib/refsem.py run for n=0..8 on the normal form (all variables) and on the source (original variables at iteration boundaries)",
    "auxiliary variables that Polar leaves uninitialised get a marker value; the marker itself is not judged for that variable (it is never read under the guard), "
    "but any value derived from it in another variable is",
]


def budget(tier):
    ex = int(os.environ.get("VERIF_EXAMPLES", "0"))
    if tier == "quick":
        return dict(shards=16, examples=ex or 40, shrink_calls=40, shard_timeout=1500, time_budget=110)
    return dict(shards=16, examples=ex or 5000, shrink_calls=300, shard_timeout=6 * 3600, time_budget=1500)


@st.composite
def lagging_copy(draw):
    """tiny programs in which a copy reads a variable before that variable is redrawn from a large or continuous support"""
    V, N = L.var, L.num
    big = draw(st.sampled_from([["draw", "Normal", [N(0), N(1)]], ["draw", "Uniform", [N(0), N(2)]], ["draw", "DiscreteUniform", [N(0), N(30)]],
                                ["draw", "DiscreteUniform", [N(0), N(2)]], ["draw", "Laplace", [N(0), N(1)]], ["choice", [N(0), N(7)], [N("1/2")]]]))
    iv = draw(st.sampled_from(["0", "1", "2"]))
    init = [["assign", "x", ["expr", N(iv)]], ["assign", "h", ["expr", N(iv if draw(st.integers(0, 3)) else "5")]]]
    body = [["assign", "h", ["expr", V("x")]], ["assign", "x", big]]
    if draw(st.integers(0, 2)) == 0:
        init.append(["assign", "y", ["expr", N(0)]])
        body.insert(draw(st.integers(0, 2)), ["assign", "y", ["expr", ["mul", V("h"), V("h")]]])
    if draw(st.integers(0, 3)) == 0:
        init.append(["assign", "a", ["expr", N(0)]])
        body.append(["assign", "a", ["draw", "Bernoulli", [N("1/2")]]])
    guard = ["true"] if draw(st.integers(0, 3)) else ["cmp", V("a"), "==", N(0)] if any(s[1] == "a" for s in init) else ["true"]
    return {"types": {}, "init": init, "guard": guard, "body": body}


@st.composite
def cases(draw, tier="quick"):
    if draw(st.integers(0, 11)) == 11:
        return {"prog": draw(lagging_copy()), "fp": draw(st.sampled_from([100, 100, 1, 2, 3, 10]))}
    profile = draw(st.sampled_from(["discrete"] * 2 + ["guarded"] * 2 + ["edge", "mixed", "mixed"]))
    prog, meta = draw(gen.programs(profile, uninit_ok=False, max_body=4))
    return {"prog": prog, "fp": draw(st.sampled_from([100, 100, 1, 2, 3, 10]))}


def strategy(tier):
    return cases(tier)


MARK = Fraction(987654321, 1000003)
MARK2 = Fraction(123456789, 1000033)


def run_case(case, tier="quick"):
    import sympy
    from program.type import Finite

    prog = case["prog"]
    text = L.render_program(prog)
    key = common.case_key({"t": text, "fp": case["fp"]})
    tags = L.count_constructs(prog) + [f"fp_iterations={case['fp']}"]
    base = {"key": key, "tags": tags}
    tl = 12 if tier == "quick" else 90
    try:
        with pd.time_limit(tl):
            pd.set_settings(type_fp_iterations=case["fp"])
            program = pd.normalize(pd.parse(text))
    except pd.CaseTimeout:
        return dict(base, status="inconclusive", bucket="polar_time_limit")
    except Exception as e:
        return dict(base, status="refusal", bucket=pd.refusal_bucket(e), detail=str(e)[:200])
    if program.abstracted_const_store:
        return dict(base, status="gave_up", bucket="abstracted_condition")
    types = {}
    for v, t in program.typedefs.items():
        if isinstance(t, Finite):
            vals = set()
            for x in t.values:
                try:
                    vals.add(common.exact_fraction(sympy.sympify(str(x))))
                except common.NotRational:
                    pass
            types[str(v)] = (vals, t)
    nform = str(program)
    original = {str(v) for v in program.original_variables}
    aux_typed = [v for v in types if v not in L.program_vars(prog)]
    base["nontrivial"] = bool(aux_typed) or "guard" in tags or "if" in tags
    if aux_typed:
        tags.append("aux_typed")
    N = 8
    collected = {}
    states = []

    nonconst = {}

    def on_assign(var, val, st_):
        if val.is_const():
            collected.setdefault(var, set()).add(val.cval())
        else:
            nonconst.setdefault(var, str(val))

    try:
        with pd.time_limit(tl * 3):
            nf_ast = snapshot.program_to_ast(program)
            uv = common.uninit_vars(nf_ast)
            it = refsem.Interp(nf_ast, uninit={v: MARK for v in uv}, max_states=6000, on_assign=on_assign)
            dists = it.run(N)
            for d in dists:
                for pr, s in d:
                    states.append(s)
                    for v, val in s.v.items():
                        if val.is_const():
                            collected.setdefault(v, set()).add(val.cval())
            # second run with a different marker: values of auxiliary variables that depend on the marker are
            # "undefined" (computed from a never-assigned auxiliary before the guard ever held) and are not judged
            collected2 = {}

            def on_assign2(var, val, st_):
                if val.is_const():
                    collected2.setdefault(var, set()).add(val.cval())

            itb = refsem.Interp(nf_ast, uninit={v: MARK2 for v in uv}, max_states=6000, on_assign=on_assign2)
            for d in itb.run(N):
                for pr, s in d:
                    for v, val in s.v.items():
                        if val.is_const():
                            collected2.setdefault(v, set()).add(val.cval())
            for v in list(collected):
                if v.startswith("_"):
                    collected[v] = collected[v] & collected2.get(v, set())
            # source program: original variables at iteration boundaries
            it2 = refsem.Interp(prog, uninit={}, max_states=6000)
            src = {}
            for d in it2.run(N):
                for pr, s in d:
                    for v, val in s.v.items():
                        if val.is_const():
                            src.setdefault(v, set()).add(val.cval())
    except refsem.OracleGiveUp as e:
        return dict(base, status="gave_up", bucket=str(e)[:60])
    except pd.CaseTimeout:
        return dict(base, status="gave_up", bucket="oracle_time_limit")
    for v, example in sorted(nonconst.items()):
        if v in types:
            return dict(base, status="violation", bucket="continuous_value_in_finite_type", nontrivial=True,
                        detail={"program": text, "normal_form": nform, "variable": v, "value": example, "type": sorted(L.fs(t) for t in types[v][0])})
    for where, coll in (("normal_form", collected), ("source", src)):
        for v, vals in sorted(coll.items()):
            if v not in types:
                continue
            if where == "source" and v not in original:
                continue
            for x in sorted(vals):
                if x == MARK and v in uv:
                    continue
                if x not in types[v][0]:
                    return dict(base, status="violation", bucket=f"value_outside_type:{where}:{'aux' if v.startswith('_') else 'original'}", nontrivial=True,
                                detail={"program": text, "normal_form": nform, "variable": v, "value": L.fs(x), "type": sorted(L.fs(t) for t in types[v][0]),
                                        "fp_iterations": case["fp"]})
    # consequently: power reduction and arithmetised conditions are right on all collected values / states
    for v, (vals, t) in types.items():
        for k in range(0, len(vals) + 3):
            red = sympy.sympify(str(t.reduce_power(k)))
            for x in collected.get(v, ()):
                if x == MARK:
                    continue
                got = red.subs({sympy.Symbol(v): sympy.Rational(x.numerator, x.denominator)})
                if sympy.simplify(got - sympy.Rational(x.numerator, x.denominator) ** k) != 0:
                    return dict(base, status="violation", bucket="power_reduction", detail={"program": text, "variable": v, "power": k, "value": L.fs(x), "reduced": str(red)})
    checked = 0
    try:
        with pd.time_limit(tl * 2):
            for a in program.loop_body:
                cond = a.condition
                if type(cond).__name__ == "TrueCond":
                    continue
                try:
                    arithm = sympy.sympify(str(cond.to_arithm(program)))
                except Exception:
                    continue
                cast = snapshot.cond_to_ast(cond, set(collected) | set(types))
                cvars = L.cond_vars(cast)
                for s in states[:300]:
                    if any((v not in s.v) or (not s.v[v].is_const()) or s.v[v].cval() == MARK
                           or (v.startswith("_") and s.v[v].cval() not in collected.get(v, ())) for v in cvars):
                        continue  # an auxiliary variable has not been assigned yet (state before the first iteration)
                    try:
                        truth = it.cond(cast, s)
                    except refsem.OracleGiveUp:
                        continue
                    rep = {}
                    skip = False
                    for sym in arithm.free_symbols:
                        if sym.name in s.v and s.v[sym.name].is_const():
                            x = s.v[sym.name].cval()
                            if x == MARK:
                                skip = True
                            rep[sym] = sympy.Rational(x.numerator, x.denominator)
                        else:
                            skip = True
                    if skip:
                        continue
                    got = sympy.simplify(arithm.xreplace(rep))
                    checked += 1
                    if got != (1 if truth else 0):
                        return dict(base, status="violation", bucket="condition_indicator", nontrivial=True,
                                    detail={"program": text, "normal_form": nform, "condition": str(cond), "indicator": str(arithm), "state": {k: str(v) for k, v in s.v.items()},
                                            "polar": str(got), "truth": int(truth)})
    except pd.CaseTimeout:
        pass
    return dict(base, status="ok", counters={"typed_variables": len(types), "indicator_evaluations": checked})


def classify(case, verdict):
    return None


def sample_repr(case, verdict):
    return {"program": L.render_program(case["prog"]), "fp_iterations": case["fp"], "status": verdict["status"], "tags": verdict["tags"]}
