"""
C20 - results are independent of process history, goal order and hash seed.

A case is a *history*: a sequence of analyses (programs from the generator and benchmark files, goal lists in some order, settings vectors,
analyses that Polar refuses, invariant and sensitivity requests) executed one after the other in ONE process (the case's own forked child,
which starts with a freshly imported Polar).  Model: the same single analysis executed in a fresh subprocess.  After every step the
in-process signature must equal the fresh one (closed forms as functions at n=0..5 and a parameter point, exactness flag, inferred types up
to names of generated symbols, invariant ideals, error outcomes).  The last step of every history is additionally re-run fresh under other
PYTHONHASHSEED values.

A second kind of case is a command-line run over several files (polar.py:main: one action object and one argument namespace for all
benchmark files); what is printed for each file must be what the same command line prints for that file alone.
"""
import json
import os
import re
import subprocess
import sys
from fractions import Fraction

from hypothesis import strategies as st

from lib import gen, lang as L, polar_driver as pd, common, c20sig

PROPERTY_ID = "C20"
ISOLATE = True  # every history runs in its own forked child: one long-lived Polar process per history
HARD_LIMIT = {"quick": 150, "thorough": 900}
STEP_LIMIT = {"quick": 12, "thorough": 60}
RULE = (
    "histories of 3-5 steps (thorough: up to 14) over 2-3 generated programs and benchmark files; step kinds: analyze (goal order permuted), analyze_again, "
    "with_settings (cond2arithm / transform_categoricals / numeric_roots, applied like the CLI and followed by default-settings steps), invariants, sensitivity, "
    "failing (a program Polar refuses); non-trivial = >= 3 analyses of >= 2 distinct programs with a repeat and a goal permutation; distinct by the step sequence; "
    "about a third of the cases are command-line runs instead: 2-3 files (sibling / twin programs, repeats) given to ONE action object from ActionFactory with one "
    "argument namespace, as polar.py:main does (--goals in some order with --at_n, central moments and cumulants, --invariants with and without goals); "
    "non-trivial = >= 2 different files"
)
ASSUMPTIONS = [
    "model: the same single analysis in a forked child of the not-yet-used history process (fresh Polar state: name counter 0, default settings, empty caches), memoised per request; the last analysis of each history is also run in really fresh interpreters (python -m lib.c20sig) under PYTHONHASHSEED 0 and 12345 (thorough: 0, 1, 2, 17, 12345)",
    "signatures compare closed forms as functions (values at n=0..5 and a parameter point), exactness flags, inferred types after canonical renaming of generated names, "
    "reduced Groebner bases of invariant ideals, and (exception type, raising function) of errors",
    "command-line cases: the model is the same command line with that one file, in a forked child of the unused case process; compared per file: the values printed "
    "for --at_n (text, else symbolic difference 0), the exact/rounded lines, the reduced Groebner basis of the printed invariants, the error that ends the run",
]

BENCH = ["2dwalk.prob", "binomial.prob", "illustrating.prob", "stuttering_p.prob", "conditional_loop.prob", "else_transformation.prob", "square.prob", "bimodal_x.prob"]
BENCH_GOALS = {"2dwalk.prob": ["E(x)", "E(x**2)"], "binomial.prob": ["E(x)", "E(x**2)"], "illustrating.prob": ["E(z)"], "stuttering_p.prob": ["E(s)", "E(s**2)"],
               "conditional_loop.prob": ["E(x)"], "else_transformation.prob": ["E(x)"], "square.prob": ["E(y)", "E(y**2)"], "bimodal_x.prob": ["E(x)", "E(x**2)"]}
REFUSED = ["x = 0\nwhile true:\n    x = x + 1\n    if x > 3:\n        x = 0\n    end\nend\n",
           "x = 1\nwhile true:\n    x = x*x + 1\n    y = Bernoulli(x)\nend\n"]


def budget(tier):
    ex = int(os.environ.get("VERIF_EXAMPLES", "0"))
    if tier == "quick":
        return dict(shards=16, examples=ex or 8, shrink_calls=6, shard_timeout=1700, time_budget=80)
    return dict(shards=16, examples=ex or 200, shrink_calls=30, shard_timeout=6 * 3600, time_budget=1500)


@st.composite
def histories(draw, tier="quick"):
    nprog = draw(st.integers(2, 3))
    programs = []
    for _ in range(nprog):
        if draw(st.integers(0, 3)) == 0:
            b = draw(st.sampled_from(BENCH))
            programs.append({"bench": b, "goals": BENCH_GOALS[b]})
        else:
            profile = draw(st.sampled_from(["discrete", "edge", "edge", "mixed", "guarded", "param"]))
            prog, meta = draw(gen.programs(profile, uninit_ok=False, max_body=3))
            goals = draw(gen.goals_for(prog, meta, max_goals=3))
            programs.append({"text": L.render_program(prog), "goals": [f"E({pd.monomial_to_str(g)})" for g in goals],
                             "syms": sorted(L.program_symbols(prog)), "ast": prog})
    # sibling programs: an edited copy of an earlier generated program (same variable names and condition texts, a different
    # draw / value set / parameter), as when a user edits a file and analyses it again in the same session
    gen_idx = [i for i, p in enumerate(programs) if "ast" in p]
    pair = None
    if gen_idx and draw(st.integers(0, 3)) > 0:
        si = draw(st.sampled_from(gen_idx))
        src = programs[si]
        variant = _variant(draw, src["ast"])
        if variant is not None:
            programs.append({"text": L.render_program(variant), "goals": list(src["goals"]), "syms": src["syms"]})
            nprog += 1
            pair = (si, nprog - 1)
    if pair is None and draw(st.integers(0, 2)) == 0:
        # twin programs from a template: same variable names and the same condition text, different draws (value sets)
        draws = ["DiscreteUniform(0, 2)", "DiscreteUniform(0, 3)", "Bernoulli(1/2)", "Categorical(1/4, 1/4, 1/2)", "DiscreteUniform(1, 4)", "0 {1/2} 2", "1 {1/3} 3 {1/3} 5"]
        cond = draw(st.sampled_from(["a == 1", "a < 2", "a >= 1", "a == 1 || a == 3", "!(a == 1)"]))
        upd = draw(st.sampled_from(["y = y + 1", "y = y + a", "y = 2*y + 1 {1/2} y"]))
        d1, d2 = draw(st.lists(st.sampled_from(draws), min_size=2, max_size=2, unique=True))
        tw = []
        for dd in (d1, d2):
            tw.append({"text": f"a = 0\ny = 0\nwhile true:\n    a = {dd}\n    if {cond}:\n        {upd}\n    end\nend\n", "goals": ["E(y)", "E(a*y)", "E(y**2)"], "syms": []})
        programs += tw
        nprog += 2
        pair = (nprog - 2, nprog - 1)
    if draw(st.integers(0, 9)) >= 6:
        # a command-line run over several benchmark files: one action object, one argument namespace for all files
        if pair is not None and draw(st.integers(0, 3)) > 0:
            files = list(pair) if draw(st.booleans()) else list(pair)[::-1]
            if draw(st.integers(0, 2)) == 0:
                files.append(files[0])
        else:
            files = draw(st.lists(st.integers(0, nprog - 1), min_size=2, max_size=3))
        common_goals = [g for g in programs[files[0]]["goals"] if all(g in programs[i]["goals"] for i in files)]
        mode = draw(st.sampled_from(["goals", "goals", "invariants", "invariants_nogoals", "central"]))
        if not common_goals and mode != "invariants_nogoals":
            mode = draw(st.sampled_from(["invariants_nogoals", "first_file_goals"]))
            common_goals = list(programs[files[0]]["goals"])
        at_n = ["--at_n", str(draw(st.sampled_from([2, 3, 5])))]
        if mode == "invariants_nogoals":
            argv = ["--invariants"]
        elif mode == "invariants":
            argv = ["--goals"] + common_goals + ["--invariants"] + at_n
        elif mode == "central":
            inner = common_goals[0][2:-1]
            argv = ["--goals", f"c2({inner})", f"k3({inner})", common_goals[0]] + at_n
        else:
            perm = draw(st.permutations(common_goals))
            argv = ["--goals"] + list(perm) + at_n
        return {"programs": programs, "steps": [], "cli": {"files": files, "argv": argv, "mode": mode}}
    nsteps = draw(st.integers(3, 5 if tier == "quick" else 14))
    steps = []
    if pair is not None and draw(st.integers(0, 4)) > 0:
        # the edited copy is analysed right after (or before) the original
        order = list(pair) if draw(st.booleans()) else list(pair)[::-1]
        for pi in order:
            steps.append({"kind": "analyze", "program": pi, "perm": list(draw(st.permutations(list(range(len(programs[pi]["goals"]))))))})
        nsteps = max(1, nsteps - 2)
    for i in range(nsteps):
        kind = draw(st.sampled_from(["analyze"] * 4 + ["again"] * 2 + ["settings"] * 2 + ["invariants", "failing", "sensitivity"]))
        pi = draw(st.integers(0, nprog - 1))
        perm = draw(st.permutations(list(range(len(programs[pi]["goals"])))))
        step = {"kind": kind, "program": pi, "perm": list(perm)}
        if kind == "settings":
            step["settings"] = draw(st.sampled_from([{"cond2arithm": True}, {"transform_categoricals": True}, {"numeric_roots": True}, {"exact_func_moments": True},
                                                     {"type_fp_iterations": 2}]))
        if kind == "failing":
            step["refused"] = draw(st.integers(0, len(REFUSED) - 1))
        if kind == "again" and steps:
            prev = draw(st.sampled_from(steps))
            step = dict(prev, kind="again") if prev["kind"] in ("analyze", "again", "settings") else step
        steps.append(step)
    return {"programs": programs, "steps": steps}


def _variant(draw, prog):
    """copy of prog with one draw / choice widened (changes a finite type but no name and no condition text)"""
    import copy

    p = copy.deepcopy(prog)
    sites = []

    def walk(stmts):
        for s in stmts:
            if s[0] == "assign" and s[2][0] in ("draw", "choice"):
                sites.append(s)
            elif s[0] == "if":
                for _, b in s[1]:
                    walk(b)
                if s[2] is not None:
                    walk(s[2])

    walk(p["body"])
    walk(p["init"])
    if not sites:
        return None
    cv = set()
    gen._collect_cond_vars(p["body"], cv)
    L.cond_vars(p["guard"], cv)
    pref = [s for s in sites if s[1] in cv]
    s = draw(st.sampled_from(pref if pref else sites))
    r = s[2]
    if r[0] == "draw" and r[1] == "DiscreteUniform":
        r[2][1] = L.num(Fraction(r[2][1][1]) + 1)
    elif r[0] == "draw" and r[1] == "Bernoulli":
        s[2] = ["draw", "Categorical", [L.num("1/3"), L.num("1/3"), L.num("1/3")]]
    elif r[0] == "draw" and r[1] == "Categorical":
        s[2] = ["draw", "DiscreteUniform", [L.num(0), L.num(len(r[2]))]]
    elif r[0] == "choice" and r[1][0][0] == "num":
        r[1][0] = L.num(Fraction(r[1][0][1]) + 2)
    else:
        return None
    return p


def strategy(tier):
    return histories(tier)


def _text_of(p):
    if "text" in p:
        return p["text"]
    with open(os.path.join(pd.REPO, "tests", "benchmarks", p["bench"])) as f:
        return f.read()


def _request(case, step, tier="quick"):
    p = case["programs"][step["program"]]
    goals = [p["goals"][i] for i in step["perm"]] if step["perm"] else list(p["goals"])
    kind = "goals"
    text = _text_of(p)
    settings = step.get("settings") or {}
    req = {"kind": kind, "text": text, "goals": goals, "settings": settings, "time_limit": STEP_LIMIT[tier]}
    if step["kind"] == "invariants":
        req["kind"] = "invariants"
    elif step["kind"] == "sensitivity":
        syms = p.get("syms") or []
        if syms:
            req["kind"] = "sensitivity"
            req["param"] = syms[0]
    elif step["kind"] == "failing":
        req["text"] = REFUSED[step["refused"]]
        req["goals"] = ["E(x)"]
    return req


def fresh_signature(req, hashseed="0"):
    env = dict(os.environ, PYTHONHASHSEED=hashseed)
    p = subprocess.run([sys.executable, "-m", "lib.c20sig"], input=json.dumps(req), capture_output=True, text=True, timeout=300, preexec_fn=pd.die_with_parent,
                       cwd=os.path.dirname(os.path.dirname(os.path.abspath(__file__))), env=env)
    for ln in p.stdout.splitlines():
        if ln.startswith("C20SIG "):
            return json.loads(ln[7:])
    raise RuntimeError("fresh run failed: " + (p.stderr or "")[-800:])


def _in_fresh_fork(fn, arg, timeout=200):
    """fn(arg) (JSON-able result) in a forked child; must be called while this process has not analysed anything yet"""
    import select

    rfd, wfd = os.pipe()
    pid = os.fork()
    if pid == 0:
        code = 0
        try:
            os.close(rfd)
            pd.die_with_parent()
            res = fn(arg)
            with os.fdopen(wfd, "wb") as f:
                f.write(json.dumps(res).encode())
        except BaseException:
            code = 1
        finally:
            os._exit(code)
    os.close(wfd)
    chunks = []
    with os.fdopen(rfd, "rb") as f:
        while True:
            r, _, _ = select.select([f], [], [], timeout)
            if not r:
                os.kill(pid, 9)
                break
            b = f.read1(1 << 20)
            if not b:
                break
            chunks.append(b)
    os.waitpid(pid, 0)
    return json.loads(b"".join(chunks).decode())


def fresh_signature_fork(req):
    """
    The same single analysis in a forked child of a process that has not analysed anything yet (modules imported at most):
    Polar's global state (name counter, settings, class flags, lru_caches) is that of a fresh process, at a fraction of the cost of
    starting a new interpreter.  Must be called before the first in-process analysis of the history.
    """
    return _in_fresh_fork(c20sig.analysis_signature, req)


# ------------------------------------------------------------------ the command line with several benchmark files (polar.py:main)

_ANSI = re.compile(r"\x1b\[[0-9;]*m")
_GOAL_ID = re.compile(r"\b(E|k\d+|c\d+)\(([^()]*)\)")


def cli_run(arg):
    """
    What polar.py:main does: ONE action object from ActionFactory, called for every benchmark file in turn; the first exception ends the run.
    arg = {"texts": [...], "argv": [...], "limit": seconds}; returns one entry per file that was reached.
    """
    import tempfile

    from cli import ArgumentParser
    from cli.actions import ActionFactory

    d = tempfile.mkdtemp(prefix="c20cli")
    files = []
    for i, t in enumerate(arg["texts"]):
        fn = os.path.join(d, f"file{i}.prob")
        with open(fn, "w") as f:
            f.write(t)
        files.append(fn)
    outs = []
    old_argv = sys.argv
    try:
        sys.argv = ["polar.py"] + files + list(arg["argv"])
        args = ArgumentParser().parse_args()
        action = ActionFactory.create_action(args)
        for fn in files:
            try:
                with pd.time_limit(arg["limit"]), pd.captured_stdout() as buf:
                    action(fn)
                outs.append({"out": buf.getvalue()})
            except pd.CaseTimeout:
                outs.append({"error": "time_limit"})
                break
            except Exception as e:
                outs.append({"error": pd.refusal_bucket(e)})
                break
    finally:
        sys.argv = old_argv
        for fn in files:
            os.unlink(fn)
        os.rmdir(d)
    return outs


def cli_parse(entry):
    """comparable view of what the command line printed for one file"""
    if "error" in entry:
        return {"error": entry["error"]}
    res = {"error": None, "at_n": {}, "exact": [], "invariants": None}
    in_inv = False
    polys = []
    for ln in entry["out"].splitlines():
        ln = _ANSI.sub("", ln).rstrip()
        if ln.startswith("-   Invariants"):
            in_inv = True
            res["invariants"] = []
        elif in_inv and ln.endswith(" = 0"):
            polys.append(ln[:-4])
        elif not in_inv and " | n=" in ln and " = " in ln:
            lhs, rhs = ln.split(" = ", 1)
            res["at_n"][lhs] = c20sig.canonical_text(rhs.split(" \u2245 ")[0])
        elif ln in ("Solution is exact", "Solution is rounded"):
            res["exact"].append(ln)
    if polys:
        import sympy

        names = {}

        def rep(m):
            return names.setdefault(m.group(0), f"gg{len(names)}x" + "".join(ch if ch.isalnum() else "_" for ch in m.group(0)))

        exprs = [sympy.sympify(_GOAL_ID.sub(rep, p)) for p in polys]
        syms = sorted({s for e in exprs for s in e.free_symbols}, key=str)
        G = sympy.groebner(exprs, *syms, order="grevlex", domain=sympy.QQ)
        res["invariants"] = sorted(str(sympy.Poly(p, *syms).monic().as_expr()) for p in G.exprs)
    return res


def _same_value_text(a, b):
    if a == b:
        return True
    import sympy

    try:
        d = sympy.simplify(sympy.sympify(a.replace("#", "_")) - sympy.sympify(b.replace("#", "_")))
        return d == 0
    except Exception:
        return False


def _cli_equal(a, b):
    if a["error"] or b["error"]:
        return a["error"] == b["error"]
    if a["exact"] != b["exact"] or a["invariants"] != b["invariants"] or set(a["at_n"]) != set(b["at_n"]):
        return False
    return all(_same_value_text(a["at_n"][k], b["at_n"][k]) for k in a["at_n"])


def run_cli_case(case, tier):
    key = common.case_key(case)
    texts = [_text_of(p) for p in case["programs"]]
    order = case["cli"]["files"]
    argv = case["cli"]["argv"]
    tags = ["cli", "cli:" + case["cli"]["mode"], f"cli_files={len(order)}"]
    base = {"key": key, "tags": tags, "nontrivial": len(order) >= 2 and len({texts[i] for i in order}) >= 2}
    limit = STEP_LIMIT[tier] * 2
    alone = {}
    try:
        for i in order:
            if i not in alone:
                alone[i] = _in_fresh_fork(cli_run, {"texts": [texts[i]], "argv": argv, "limit": limit})[0]
        seq = _in_fresh_fork(cli_run, {"texts": [texts[i] for i in order], "argv": argv, "limit": limit}, timeout=limit * len(order) + 60)
    except Exception as e:
        return dict(base, status="inconclusive", bucket="fresh_run_failed", detail=str(e)[:300])
    compared = 0
    for pos, i in enumerate(order):
        if alone[i].get("error") == "time_limit" or pos >= len(seq) or seq[pos].get("error") == "time_limit":
            break
        a, b = cli_parse(seq[pos]), cli_parse(alone[i])
        if not _cli_equal(a, b):
            return dict(base, status="violation", bucket="cli_sequence_dependence:" + case["cli"]["mode"], nontrivial=True,
                        detail={"command_line": ["polar.py"] + [f"file{j}.prob" for j in order] + argv, "position": pos,
                                "files": {f"file{j}.prob": texts[j] for j in sorted(set(order))},
                                "in_sequence": a, "alone": b})
        compared += 1
        if b["error"]:
            break  # the command line stops at the first file that raises
    if compared == 0:
        return dict(base, status="inconclusive", bucket="cli_time_limit")
    refused = sum(1 for i in order if alone[i].get("error") not in (None, "time_limit"))
    return dict(base, status="ok", counters={"cli_files_compared": compared, "cli_files_refused": refused})


def _comparable(sig, goals):
    """order-insensitive view of a signature"""
    return {"goals": {g: sig["goals"].get(g) for g in sorted(goals)}, "types": sig["program"], "error": sig["error"], "invariants": sig["invariants"]}


def _timeouts(sig):
    return sig.get("error") == "time_limit"


def run_case(case, tier="quick"):
    if case.get("cli"):
        return run_cli_case(case, tier)
    key = common.case_key(case)
    steps = case["steps"]
    kinds = [s["kind"] for s in steps]
    tags = sorted(set("step:" + k for k in kinds))
    progs_used = {s["program"] for s in steps}
    texts = [json.dumps(_request(case, s, tier), sort_keys=True) for s in steps]
    repeat = len(set(texts)) < len(texts) or "again" in kinds
    permuted = any(s["perm"] != sorted(s["perm"]) for s in steps)
    base = {"key": key, "tags": tags, "nontrivial": len(steps) >= 3 and len(progs_used) >= 2 and repeat and permuted}
    memo = {}
    compared = 0
    # model first, while this process has not analysed anything: every distinct request in a forked child (fresh state);
    # one request per history additionally in a really fresh interpreter (cross-check of the fork model)
    for i, step in enumerate(steps):
        canon_req = dict(_request(case, step, tier), goals=sorted(_request(case, step, tier)["goals"]))
        mk = json.dumps(canon_req, sort_keys=True)
        if mk not in memo:
            try:
                memo[mk] = fresh_signature_fork(canon_req)
            except Exception as e:
                return dict(base, status="inconclusive", bucket="fresh_run_failed", detail=str(e)[:300])
    for i, step in enumerate(steps):
        req = _request(case, step, tier)
        inproc = c20sig.analysis_signature(req)
        # the CLI leaves the settings of the last run in place; the next analysis sets its own (as _set_settings does)
        canon_req = dict(req, goals=sorted(req["goals"]))
        mk = json.dumps(canon_req, sort_keys=True)
        fresh = memo[mk]
        if _timeouts(inproc):
            # an interrupted computation can leave sympy's caches inconsistent: the history ends here
            break
        if _timeouts(fresh):
            continue
        a, b = _comparable(inproc, req["goals"]), _comparable(fresh, req["goals"])
        # a goal that hit the time limit on one side is not compared
        if a != b:
            diff = [k for k in a if a[k] != b[k]]
            return dict(base, status="violation", bucket="history_dependence:" + ",".join(diff) + ":" + step["kind"], nontrivial=True,
                        detail={"step_index": i, "step": step, "request": req, "in_process": a, "fresh_process": b,
                                "history": [dict(s, text=_request(case, s, tier)["text"][:200]) for s in steps[: i + 1]]})
        compared += 1
    # hash seeds on the last analysis
    last = dict(_request(case, steps[-1], tier))
    last["goals"] = sorted(last["goals"])
    lk = json.dumps(last, sort_keys=True)
    ref = memo[lk]
    for hs in (["0", "12345"] if tier == "quick" else ["0", "1", "2", "17", "12345"]):
        try:
            other = fresh_signature(last, hs)
        except Exception as e:
            return dict(base, status="inconclusive", bucket="fresh_run_failed", detail=str(e)[:300])
        if _timeouts(other) or _timeouts(ref):
            continue
        if _comparable(other, last["goals"]) != _comparable(ref, last["goals"]):
            return dict(base, status="violation", bucket="hash_seed_dependence", nontrivial=True,
                        detail={"request": last, "PYTHONHASHSEED=0": _comparable(ref, last["goals"]), f"PYTHONHASHSEED={hs}": _comparable(other, last["goals"])})
    return dict(base, status="ok", counters={"steps_compared": compared, "fresh_runs": len(memo)})


def classify(case, verdict):
    return None


def sample_repr(case, verdict):
    return {"programs": [p.get("bench") or p["text"] for p in case["programs"]], "steps": case["steps"], "cli": case.get("cli"), "status": verdict["status"], "tags": verdict["tags"]}
