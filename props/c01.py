"""
C01 - closed-form moments equal the exact expected values at every iteration.

Generator: loop programs from lib.gen (profiles discrete/mixed/guarded/param), 1-3 goal monomials.
Oracle: exact distribution semantics (lib.refsem) for n = 0..N, at 2 rational parameter points.
"""
import os
import re
import subprocess
import sys
import tempfile
from fractions import Fraction

from hypothesis import strategies as st

from lib import gen, lang as L, refsem, polar_driver as pd, common, classifiers

PROPERTY_ID = "C01"
RULE = (
    "programs drawn from the grammar-based generator (profiles discrete 50%, mixed 25%, guarded 15%, param 10%), "
    "1-3 goal monomials of degree <= 3; a case is non-trivial when Polar returned a closed form for at least one goal, "
    "the exact interpreter did not give up, and the program has a probabilistic or conditional construct or a "
    "non-constant moment sequence; distinct by SHA-1 of (program text, goals)"
)
ASSUMPTIONS = [
    "lib/refsem.py (exact distribution semantics over rationals) is the reference; it shares no code with Polar",
    "variable names avoid e, E, I, pi, n, t, oo and a leading underscore (read as constants / Polar internals)",
    "symbolic parameters and x0 symbols are judged at 2 rational points (identity of rational functions)",
    "n ranges over 0..(listed special cases + 3), capped at 8 (quick) / 10 (thorough)",
]


def budget(tier):
    ex = int(os.environ.get("VERIF_EXAMPLES", "0"))
    if tier == "quick":
        return dict(shards=16, examples=ex or 22, shrink_calls=40, shard_timeout=1500, time_budget=150)
    return dict(shards=16, examples=ex or 2000, shrink_calls=300, shard_timeout=6 * 3600, time_budget=1500)


@st.composite
def cases(draw, tier="quick"):
    profile = draw(st.sampled_from(["discrete"] * 10 + ["mixed"] * 5 + ["guarded"] * 3 + ["param"] * 2))
    prog, meta = draw(gen.programs(profile))
    goals = draw(gen.goals_for(prog, meta))
    points = draw(gen.param_points(prog, 2))
    at_n = draw(st.integers(0, 6))
    cli = draw(st.integers(0, 39)) == 39
    return {"prog": prog, "meta": meta, "goals": goals, "points": points, "at_n": at_n, "cli": cli}


def strategy(tier):
    return cases(tier)


def _limits(tier):
    return (10, 8) if tier == "quick" else (60, 10)


def run_case(case, tier="quick", settings_opts=None, force_text=None):
    prog = case["prog"]
    text = force_text or L.render_program(prog)
    tags = L.count_constructs(prog)
    tlimit, ncap = _limits(tier)
    key = common.case_key({"t": text, "g": case["goals"]})
    base = {"tags": tags, "key": key}
    # ---- Polar
    results = {}
    try:
        with pd.time_limit(tlimit):
            an = pd.Analysis(text, settings_opts)
            for mono in case["goals"]:
                try:
                    with pd.time_limit(tlimit):
                        results[pd.monomial_to_str(mono)] = (mono, an.moment(mono))
                except pd.CaseTimeout:
                    raise
                except Exception as e:
                    results[pd.monomial_to_str(mono)] = (mono, e)
    except pd.CaseTimeout:
        return dict(base, status="inconclusive", bucket="polar_time_limit")
    except RecursionError:
        return dict(base, status="inconclusive", bucket="recursion_limit")
    except Exception as e:
        return dict(base, status="refusal", bucket=pd.refusal_bucket(e), detail=str(e)[:300])
    good = {k: v for k, v in results.items() if not isinstance(v[1], Exception)}
    if not good:
        e = next(iter(results.values()))[1]
        return dict(base, status="refusal", bucket=pd.refusal_bucket(e), detail=str(e)[:300])
    solver_kinds = set()
    maxcase = 0
    for k, (mono, (expr, exact)) in good.items():
        from symengine.lib.symengine_wrapper import sympify

        s = an.solvers.get(sympify(k))
        if s is not None:
            solver_kinds.add(type(s.solver).__name__)
        maxcase = max(maxcase, pd.max_special_case(expr))
    tags = tags + sorted(solver_kinds) + (["special_cases>1"] if maxcase >= 1 else [])
    base["tags"] = tags
    N = min(ncap, maxcase + 3)
    # ---- oracle
    try:
        with pd.time_limit(tlimit * 2):
            runs = common.oracle_runs(prog, case["points"], N)
    except refsem.OracleGiveUp as e:
        return dict(base, status="gave_up", bucket=str(e)[:80])
    except pd.CaseTimeout:
        return dict(base, status="gave_up", bucket="oracle_time_limit")
    # ---- compare
    skipped = 0
    nonconst = False
    for k, (mono, (expr, exact)) in good.items():
        try:
            with pd.time_limit(tlimit * 2):
                bad, sk = common.compare_closed_form(expr, mono, runs, N)
        except pd.CaseTimeout:
            return dict(base, status="inconclusive", bucket="evaluation_time_limit")
        except KeyError as e:
            return dict(base, status="violation", bucket="unexpected_symbols", detail={"goal": k, "closed_form": str(expr), "msg": str(e), "program": text})
        skipped += sk
        if bad is not None:
            detail = dict(bad, goal=k, closed_form=str(expr), program=text, exact_flag=bool(exact),
                          solver=sorted(solver_kinds))
            return dict(base, status="violation", bucket=f"wrong_value:{'+'.join(sorted(solver_kinds))}:n={bad['first_n']}",
                        detail=detail, nontrivial=True, polar_program=str(an.program))
        # beyond the listed special cases: the general formula must continue the sequence.  The exact
        # interpreter is used when the state space allows it; otherwise the values come from iterating
        # Polar's own recurrence matrix (whose one-step identities are C03's business).
        if maxcase + 1 > N:
            far = _check_far(an, k, mono, expr, case, maxcase, tlimit)
            if far is not None:
                return dict(base, status="violation", bucket=f"wrong_value_far:{'+'.join(sorted(solver_kinds))}",
                            detail=dict(far, goal=k, closed_form=str(expr), program=text), nontrivial=True)
            base["tags"] = base["tags"] + ["far_n_checked"]
        env, un, it, dists = runs[0]
        vals = {refsem.expectation(dists[n], mono, it) for n in range(N + 1)}
        nonconst = nonconst or len(vals) > 1
        # printed lines denote the same numbers
        bad = _check_printed(an, mono, expr, exact, case["at_n"], runs[0], N)
        if bad is not None:
            return dict(base, status="violation", bucket="printed_line:" + bad["what"], detail=dict(bad, program=text, goal=k), nontrivial=True)
    if case.get("cli"):
        bad = _check_cli(text, good, case["at_n"], runs[0])
        if bad is not None:
            return dict(base, status="violation", bucket="cli:" + bad["what"], detail=dict(bad, program=text), nontrivial=True)
        base["tags"] = base["tags"] + ["cli_subprocess"]
    prob = any(t in tags for t in ("choice", "draw", "if", "guard"))
    return dict(base, status="ok", nontrivial=bool(prob or nonconst), counters={"pole_points_skipped": skipped, "goals_compared": len(good),
                                                                             "goal_refusals": len(results) - len(good)})


def _check_far(an, k, mono, expr, case, maxcase, tlimit):
    from symengine.lib.symengine_wrapper import sympify
    import sympy

    far_n = maxcase + 2
    if far_n > 40:
        return None
    try:
        with pd.time_limit(tlimit):
            runs = common.oracle_runs(case["prog"], case["points"][:1], far_n, max_states=3000)
        env, un, it, dists = runs[0]
        subs = common.polar_subs(env, un)
        for n in range(maxcase + 1, far_n + 1):
            truth = refsem.expectation(dists[n], mono, it)
            pv = pd.eval_closed_form(expr, n, subs)
            if not pd.values_equal(pv, truth):
                return {"first_n": n, "polar": common.fmt(pv), "truth": common.fmt(truth), "oracle": "exact interpreter"}
        return None
    except pd.CaseTimeout:
        return None  # nothing further is evaluated in this process after an interrupted computation
    except (refsem.OracleGiveUp, ValueError):
        pass
    s = an.solvers.get(sympify(k))
    if s is None:
        return None
    rec = s.solver.recurrences
    try:
        with pd.time_limit(tlimit):
            idx = rec.monomials.index(sympy.sympify(k))
            v = rec.init_values_vector
            for n in range(far_n + 1):
                if n > maxcase:
                    d = sympy.simplify(v[idx] - expr.xreplace({sympy.Symbol("n", integer=True): n}))
                    if d != 0:
                        return {"first_n": n, "polar": str(expr.xreplace({sympy.Symbol("n", integer=True): n})),
                                "truth": str(v[idx]), "oracle": "iteration of Polar's recurrence matrix"}
                v = rec.recurrence_matrix * v
    except (pd.CaseTimeout, ValueError):
        return None
    return None


_N_LOCALS = None


def _parse_printed(s):
    import sympy

    global _N_LOCALS
    if _N_LOCALS is None:
        _N_LOCALS = {"n": sympy.Symbol("n", integer=True)}
    return sympy.sympify(s, locals=_N_LOCALS)


def _check_printed(an, mono, expr, exact, at_n, run, N):
    """the printed 'E(M) = v0; v1; ...; formula' and 'E(M | n=k) = value' lines denote the oracle's numbers"""
    env, un, it, dists = run
    an.cli_args.at_n = at_n
    ga = an.goals_action()
    from symengine.lib.symengine_wrapper import sympify

    m = sympify(pd.monomial_to_str(mono))
    try:
        with pd.captured_stdout() as buf:
            ga.print_moment_goal(m, expr, exact, is_probabilistic=True)
    except Exception as e:
        return None  # printing refused: not a wrong number
    finally:
        an.cli_args.at_n = -1
    out = buf.getvalue().splitlines()
    if not out or not out[0].startswith("E("):
        return {"what": "format", "line": out[:1]}
    line = out[0].split(" = ", 1)[1]
    parts = line.split("; ")
    subs = common.polar_subs(env, un)
    try:
        specials = [_parse_printed(p) for p in parts[:-1]]
        formula = _parse_printed(parts[-1])
    except Exception:
        return None
    for n in range(N + 1):
        truth = refsem.expectation(dists[n], mono, it)
        e = specials[n] if n < len(specials) else formula
        try:
            pv = pd.eval_closed_form(e, n, subs)
        except (ValueError, KeyError):
            continue
        if not pd.values_equal(pv, truth):
            return {"what": "special_cases_line", "n": n, "line": out[0], "polar": common.fmt(pv), "truth": common.fmt(truth)}
    if at_n <= N:
        for ln in out:
            mm = re.match(r"E\(.* \| n=(\d+)\) = (.*) ≅ ", ln)
            if mm:
                truth = refsem.expectation(dists[at_n], mono, it)
                try:
                    pv = pd.eval_closed_form(_parse_printed(mm.group(2)), at_n, subs)
                except (ValueError, KeyError, Exception):
                    continue
                if not pd.values_equal(pv, truth):
                    return {"what": "at_n_line", "n": at_n, "line": ln, "polar": common.fmt(pv), "truth": common.fmt(truth)}
    return None


def _check_cli(text, good, at_n, run):
    """the same through polar.py as a real subprocess (main() and _set_settings on the path)"""
    env, un, it, dists = run
    if at_n >= len(dists):
        return None
    with tempfile.NamedTemporaryFile("w", suffix=".prob", dir=os.path.join(common_out()), delete=False) as f:
        f.write(text)
        path = f.name
    try:
        goals = [f"E({k})" for k in good]
        p = subprocess.run([sys.executable, os.path.join(pd.REPO, "polar.py"), path, "--goals", *goals, "--at_n", str(at_n)],
                           capture_output=True, text=True, timeout=300, cwd=pd.REPO, env=dict(os.environ, PYTHONHASHSEED="0"),
                           preexec_fn=pd.die_with_parent)
    except subprocess.TimeoutExpired:
        return None
    finally:
        os.unlink(path)
    if p.returncode != 0:
        return None  # refusal
    out = re.sub(r"\x1b\[[0-9;]*m", "", p.stdout)
    subs = common.polar_subs(env, un)
    for k, (mono, _) in good.items():
        for ln in out.splitlines():
            if ln.startswith(f"E({k} | n={at_n}) = "):
                val = ln.split(" = ", 1)[1].split(" ≅ ")[0]
                truth = refsem.expectation(dists[at_n], mono, it)
                try:
                    pv = pd.eval_closed_form(_parse_printed(val), at_n, subs)
                except Exception:
                    continue
                if not pd.values_equal(pv, truth):
                    return {"what": "at_n_line", "goal": k, "line": ln, "truth": common.fmt(truth)}
    return None


def common_out():
    d = os.path.join(os.path.dirname(os.path.dirname(os.path.abspath(__file__))), "out", "tmp")
    os.makedirs(d, exist_ok=True)
    return d


def classify(case, verdict):
    return classifiers.classify_wrong_value(case, verdict)


def sample_repr(case, verdict):
    return {"program": L.render_program(case["prog"]), "goals": [pd.monomial_to_str(g) for g in case["goals"]],
            "points": case["points"], "status": verdict["status"], "tags": verdict["tags"]}
