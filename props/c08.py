"""
C08 - built-in distributions report their true moments, support and transforms.
"""
import os
from fractions import Fraction

import mpmath
from hypothesis import strategies as st

from lib import polar_driver as pd, common, distref
from lib.lang import fs
from lib.refsem import family_moment

PROPERTY_ID = "C08"
RULE = (
    "(family, parameters, k or t, sub-check) tuples over the ten families; parameters rational, decimal literals or symbolic; "
    "sub-checks: raw moment k=0..8 vs textbook formula and defining integral (two thirds of them after another object of the same family answered the same k), support/discreteness, cf/mgf values vs defining integral, "
    "k-th derivative of cf/mgf at 0, mgf existence predicate both directions, symbolic-then-substitute, location/scale rewriting; "
    "non-trivial = k>=1 (or t != 0) and parameters not the family's textbook default; distinct by the whole tuple"
)
ASSUMPTIONS = [
    "textbook moment formulas in lib/refsem.family_moment and lib/distref (written independently of Polar); every case first asserts that they agree "
    "with mpmath quadrature (40 digits) of the density written from its definition, a disagreement is a harness error",
    "TruncNormal is compared with tolerance 1e-9 relative (Polar's docstring disclaims exactness; it rounds through float)",
    "cf/mgf values compared at 1e-15 relative against quadrature / finite sums",
]

Q = ["1/2", "1/3", "2/3", "1/4", "3/4", "1/5", "9/10", "1/10"]
POS = ["1", "2", "3", "1/2", "3/2", "1/3", "5/2", "4"]
LOC = ["0", "1", "-1", "2", "1/2", "-3/2", "3"]


def budget(tier):
    ex = int(os.environ.get("VERIF_EXAMPLES", "0"))
    if tier == "quick":
        return dict(shards=16, examples=ex or 120, shrink_calls=60, shard_timeout=1500, time_budget=100)
    return dict(shards=16, examples=ex or 15000, shrink_calls=400, shard_timeout=6 * 3600, time_budget=1500)


def _dec(draw, s):
    """optionally render a rational as a decimal literal (goes through float_to_rational)"""
    x = Fraction(s)
    d = x.denominator
    for p in (2, 5):
        while d % p == 0:
            d //= p
    if d == 1 and x.denominator != 1 and draw(st.integers(0, 2)) == 0:
        from lib.lang import _decimal_text

        return _decimal_text(x)
    return s


@st.composite
def dist_params(draw, name=None):
    if name is None:
        name = draw(st.sampled_from(["Bernoulli", "Categorical", "DiscreteUniform", "Uniform", "Normal", "Laplace", "DistExp", "Gamma",
                                     "Beta", "TruncNormal"]))
    if name == "Bernoulli":
        ps = [draw(st.sampled_from(Q))]
    elif name == "Categorical":
        k = draw(st.integers(1, 4))
        ws = [draw(st.integers(1, 5)) for _ in range(k)]
        ps = [fs(Fraction(w, sum(ws))) for w in ws]
    elif name == "DiscreteUniform":
        a = draw(st.integers(-3, 3))
        ps = [str(a), str(a + draw(st.integers(0, 5)))]
    elif name == "Uniform":
        a = Fraction(draw(st.sampled_from(LOC)))
        ps = [fs(a), fs(a + Fraction(draw(st.sampled_from(POS))))]
    elif name == "Normal":
        ps = [draw(st.sampled_from(LOC)), draw(st.sampled_from(POS))]
    elif name == "Laplace":
        ps = [draw(st.sampled_from(LOC)), draw(st.sampled_from(POS))]
    elif name == "DistExp":
        ps = [draw(st.sampled_from(POS))]
    elif name == "Gamma":
        ps = [draw(st.sampled_from(POS)), draw(st.sampled_from(POS))]
    elif name == "Beta":
        ps = [draw(st.sampled_from(POS)), draw(st.sampled_from(POS))]
        if draw(st.integers(0, 2)) == 0:
            ps.append(draw(st.sampled_from(["2", "3", "1/2", "5/2"])))
    else:
        mu = Fraction(draw(st.sampled_from(LOC)))
        a = mu + Fraction(draw(st.sampled_from(["-2", "-1", "-1/2", "0", "1/2", "1"])))
        ps = [fs(mu), draw(st.sampled_from(["1", "4", "1/4", "9/4", "9", "2"])), fs(a), fs(a + Fraction(draw(st.sampled_from(["1", "2", "1/2", "3"]))))]
    return name, ps


@st.composite
def cases(draw, tier="quick"):
    name, ps = draw(dist_params())
    what = draw(st.sampled_from(["moment"] * 6 + ["support", "cf", "cf", "mgf", "mgf", "deriv", "symbolic", "locscale"]))
    case = {"family": name, "params": ps, "what": what, "text_params": [_dec(draw, p) for p in ps]}
    if what == "moment":
        case["k"] = draw(st.integers(0, 8))
        if draw(st.integers(0, 2)) > 0:
            # another draw from the same family, asked for the same moment first (a program has many draws; what one
            # distribution object answered must not be what the next one answers)
            case["earlier"] = draw(dist_params(name))[1]
    elif what in ("cf", "mgf"):
        case["t"] = draw(st.sampled_from(["0", "1", "-1", "1/2", "2", "-2", "1/3", "3/2", "-1/2", "3", "5/2", "-3"]))
    elif what == "deriv":
        case["k"] = draw(st.integers(1, 3))
        case["which"] = draw(st.sampled_from(["cf", "mgf"]))
    elif what == "symbolic":
        case["k"] = draw(st.integers(1, 5))
        case["pos"] = draw(st.integers(0, len(ps) - 1))
    elif what == "locscale":
        case["family"] = draw(st.sampled_from(["Normal", "Uniform", "Laplace", "DistExp"]))
        case["loc_expr"] = draw(st.sampled_from(["v", "2*v", "v + 1", "v**2", "v/2 - 1"]))
        case["scale"] = draw(st.sampled_from(POS))
        case["v"] = draw(st.sampled_from(["0", "1", "-2", "3/2", "5"]))
        case["k"] = draw(st.integers(1, 6))
        case["var_scale"] = draw(st.integers(0, 3)) == 0
    return case


def strategy(tier):
    return cases(tier)


def _to_fraction(m, subs=None):
    import sympy

    e = sympy.sympify(str(m))
    if subs:
        e = e.subs({sympy.Symbol(k): sympy.Rational(Fraction(v).numerator, Fraction(v).denominator) for k, v in subs.items()})
    e = sympy.Rational(str(e)) if e.is_Float else e  # exact decimal value of a float, no guessing
    if e.is_Rational:
        return Fraction(int(e.p), int(e.q))
    e2 = sympy.simplify(e)
    if e2.is_Rational:
        return Fraction(int(e2.p), int(e2.q))
    return e2


def _mk(name, params):
    from program.distribution import distribution_factory

    return distribution_factory(name, [str(p) for p in params])


def _mpc_of(e):
    import sympy

    v = sympy.N(sympy.sympify(e), 40)
    re_, im_ = v.as_real_imag()
    return mpmath.mpc(mpmath.mpf(str(re_)), mpmath.mpf(str(im_)))


def _close(a, b, tol):
    return abs(a - b) <= tol * max(1, abs(b))


def run_case(case, tier="quick"):
    import sympy

    pd.set_settings()
    mpmath.mp.dps = 40
    name, ps, what = case["family"], case["params"], case["what"]
    key = common.case_key(case)
    tags = [name, what]
    fam = distref.to_family(name, ps) if what != "locscale" else None
    default_params = {"Normal": ["0", "1"], "Uniform": ["0", "1"], "DistExp": ["1"], "Laplace": ["0", "1"], "Bernoulli": ["1/2"]}
    nontrivial = ps != default_params.get(name) and (case.get("k", 1) >= 1) and case.get("t", "1") != "0"
    base = {"key": key, "tags": tags, "nontrivial": nontrivial}
    detail = {"case": case}
    tl = 20 if tier == "quick" else 120
    try:
        with pd.time_limit(tl):
            if what == "moment":
                k = case["k"]
                ref = distref.exact_moment(fam, k)
                integ = distref.integral_expect(fam, lambda x: x ** k)
                if ref is not None:
                    assert _close(mpmath.mpf(ref.numerator) / ref.denominator, integ, mpmath.mpf(10) ** -20), \
                        f"oracle self-check failed: formula {ref} vs integral {integ} for {fam} k={k}"
                try:
                    if case.get("earlier"):
                        _mk(name, case["earlier"]).get_moment(k)
                        tags.append("after_other_object")
                    d = _mk(name, case["text_params"])
                    m = d.get_moment(k)
                except pd.CaseTimeout:
                    raise
                except Exception as e:
                    return dict(base, status="refusal", bucket=pd.refusal_bucket(e), detail=str(e)[:200])
                got = _to_fraction(m)
                if ref is not None:
                    if got != ref:
                        return dict(base, status="violation", bucket=f"moment:{name}", detail=dict(detail, polar=str(got), truth=fs(ref)))
                else:
                    g = mpmath.mpf(got.numerator) / got.denominator if isinstance(got, Fraction) else _mpc_of(got)
                    if not _close(g, integ, mpmath.mpf(10) ** -9):
                        return dict(base, status="violation", bucket=f"moment:{name}", detail=dict(detail, polar=str(got), truth=str(integ)))
                return dict(base, status="ok")
            if what == "support":
                d = _mk(name, case["text_params"])
                sup = d.get_support()
                disc = d.is_discrete()
                if disc != distref.is_discrete(fam):
                    return dict(base, status="violation", bucket=f"is_discrete:{name}", detail=dict(detail, polar=disc))
                true = distref.support(fam)
                if distref.is_discrete(fam):
                    vals = set()
                    for s in sup:
                        if isinstance(s, tuple):
                            continue
                        vals.add(_to_fraction(s))
                    ivs = [(s[0], s[1]) for s in sup if isinstance(s, tuple)]
                    for v in true:
                        if v not in vals and not ivs:
                            return dict(base, status="violation", bucket=f"support:{name}", detail=dict(detail, polar=str(sup), missing=fs(v)))
                else:
                    ivs = [s for s in sup if isinstance(s, tuple)]
                    lo, hi = true
                    ok = False
                    for a, b in ivs:
                        a, b = sympy.sympify(str(a)), sympy.sympify(str(b))
                        lo_ok = (a == -sympy.oo) or (lo is not None and a <= sympy.Rational(lo.numerator, lo.denominator))
                        hi_ok = (b == sympy.oo) or (hi is not None and b >= sympy.Rational(hi.numerator, hi.denominator))
                        ok = ok or (bool(lo_ok) and bool(hi_ok))
                    if not ok:
                        return dict(base, status="violation", bucket=f"support:{name}", detail=dict(detail, polar=str(sup), truth=str(true)))
                return dict(base, status="ok")
            if what in ("cf", "mgf"):
                t = Fraction(case["t"])
                tm = mpmath.mpf(t.numerator) / t.denominator
                d = _mk(name, case["text_params"])
                ts = sympy.Rational(t.numerator, t.denominator)
                if what == "mgf":
                    lo, hi = distref.mgf_domain(fam)
                    exists = (hi is None or t < hi) and (lo is None or t > lo)
                    try:
                        claimed = bool(d.mgf_exists_at(ts))
                    except pd.CaseTimeout:
                        raise
                    except Exception as e:
                        return dict(base, status="refusal", bucket=pd.refusal_bucket(e), detail=str(e)[:200])
                    tags.append("mgf_exists" if exists else "mgf_does_not_exist")
                    if claimed != exists:
                        return dict(base, status="violation", bucket=f"mgf_exists_at:{name}", detail=dict(detail, polar=claimed, truth=exists))
                    if not exists:
                        return dict(base, status="ok")
                try:
                    val = d.cf(ts) if what == "cf" else d.mgf(ts)
                    got = _mpc_of(val)
                except (NotImplementedError, AssertionError, ZeroDivisionError) as e:
                    return dict(base, status="refusal", bucket=pd.refusal_bucket(e), detail=str(e)[:200])
                except pd.CaseTimeout:
                    raise
                except Exception as e:
                    return dict(base, status="refusal", bucket=pd.refusal_bucket(e), detail=str(e)[:200])
                if mpmath.isnan(got.real) or mpmath.isnan(got.imag) or mpmath.isinf(got.real):
                    # the expression is undefined at this point (removable singularity, e.g. cf of DiscreteUniform at t=0):
                    # no number is reported, counted like a refusal
                    return dict(base, status="refusal", bucket=f"undefined_value:{what}:{name}", detail=str(val)[:200])
                if what == "cf":
                    truth = distref.integral_expect(fam, lambda x: mpmath.exp(1j * tm * x))
                else:
                    truth = distref.integral_expect(fam, lambda x: mpmath.exp(tm * x))
                if not _close(got, truth, mpmath.mpf(10) ** -15):
                    return dict(base, status="violation", bucket=f"{what}:{name}", detail=dict(detail, polar=str(got), truth=str(truth)))
                return dict(base, status="ok")
            if what == "deriv":
                k = case["k"]
                d = _mk(name, case["text_params"])
                ref = distref.exact_moment(fam, k)
                if ref is None:
                    v = distref.integral_expect(fam, lambda x: x ** k)
                else:
                    v = mpmath.mpf(ref.numerator) / ref.denominator
                tt = sympy.Symbol("tt", real=True)
                try:
                    f = d.cf(tt) if case["which"] == "cf" else d.mgf(tt)
                    der = sympy.diff(f, tt, k)
                    # value of the derivative next to 0 (sympy.limit is unreliable on hypergeometric forms; a removable
                    # singularity at 0 itself is avoided); the truncation error is O(1e-15)
                    got = _mpc_of(der.xreplace({tt: sympy.Rational(1, 10 ** 15)}).doit())
                except pd.CaseTimeout:
                    raise
                except Exception as e:
                    return dict(base, status="refusal", bucket=pd.refusal_bucket(e) if "repo" in str(e.__traceback__) else f"{type(e).__name__}@derivative", detail=str(e)[:200])
                truth = (1j ** k) * v if case["which"] == "cf" else v
                tol = mpmath.mpf(10) ** (-9 if name == "TruncNormal" else -11)
                if not _close(got, truth, tol):
                    return dict(base, status="violation", bucket=f"derivative_{case['which']}:{name}", detail=dict(detail, polar=str(got), truth=str(truth)))
                return dict(base, status="ok")
            if what == "symbolic":
                k, pos = case["k"], case["pos"]
                sp = list(case["text_params"])
                sp[pos] = "s"
                try:
                    m_sym = _mk(name, sp).get_moment(k)
                    m_num = _mk(name, case["text_params"]).get_moment(k)
                except pd.CaseTimeout:
                    raise
                except Exception as e:
                    return dict(base, status="refusal", bucket=pd.refusal_bucket(e), detail=str(e)[:200])
                a = _to_fraction(m_sym, {"s": ps[pos]})
                b = _to_fraction(m_num)
                if a != b:
                    return dict(base, status="violation", bucket=f"symbolic_subs:{name}", detail=dict(detail, symbolic=str(m_sym), subs=str(a), numeric=str(b)))
                return dict(base, status="ok")
            if what == "locscale":
                return _locscale(case, base, detail)
    except pd.CaseTimeout:
        return dict(base, status="inconclusive", bucket="time_limit")
    raise AssertionError(what)


def _locscale(case, base, detail):
    """DistTransformer rewrites a draw with variable parameters into a fixed draw plus arithmetic"""
    import sympy
    from program.assignment import DistAssignment
    from program.transformer.dist_transformer import DistTransformer
    from program.distribution import distribution_factory

    name, k = case["family"], case["k"]
    v = Fraction(case["v"])
    loc = case["loc_expr"]
    sc = case["scale"]
    if name == "Normal":
        params = [loc, "v**2 + 1" if case["var_scale"] else sc]
    elif name == "Uniform":
        params = [loc, f"{loc} + {sc}"] if not case["var_scale"] else [loc, f"{loc} + v**2 + 1"]
    elif name == "Laplace":
        params = [loc, sc]
    else:
        params = [f"{sc}/(v**2 + 1)"] if True else [sc]
    try:
        da = DistAssignment("x", distribution_factory(name, params))
        out = DistTransformer().transform(da)
    except pd.CaseTimeout:
        raise
    except Exception as e:
        return dict(base, status="refusal", bucket=pd.refusal_bucket(e), detail=str(e)[:200])
    if not isinstance(out, tuple):
        return dict(base, status="violation", bucket=f"locscale_not_rewritten:{name}", detail=dict(detail, params=params))
    new_draw, poly_assign = out
    u = sympy.Symbol(str(new_draw.variable))
    poly = sympy.sympify(str(poly_assign.polynomials[0]))
    vs = sympy.Rational(v.numerator, v.denominator)
    poly_v = poly.subs({sympy.Symbol("v"): vs})
    # stand-in moments from the independent formulas
    sd = new_draw.distribution
    sfam = distref.to_family({"Exponential": "DistExp"}.get(type(sd).__name__, type(sd).__name__),
                             [Fraction(str(x)) for x in _dist_params(sd)])
    expanded = sympy.Poly(sympy.expand(poly_v ** k), u)
    tot = sympy.Integer(0)
    for (j,), co in expanded.terms():
        mj = distref.exact_moment(sfam, j)
        tot += co * sympy.Rational(mj.numerator, mj.denominator)
    tot = sympy.simplify(tot)
    # true family at the numeric parameters
    subs = {sympy.Symbol("v"): vs}
    pv = [sympy.sympify(p).subs(subs) for p in params]
    truth = distref.exact_moment(distref.to_family(name, [Fraction(int(x.p), int(x.q)) for x in pv]), k)
    truth_s = sympy.Rational(truth.numerator, truth.denominator)
    if sympy.simplify(tot - truth_s) != 0:
        return dict(base, status="violation", bucket=f"locscale:{name}",
                    detail=dict(detail, params=params, rewritten=[str(new_draw), str(poly_assign)], polar=str(tot), truth=str(truth_s)))
    base["tags"] = base["tags"] + (["variable_scale"] if case["var_scale"] or name == "DistExp" else [])
    return dict(base, status="ok")


def _dist_params(d):
    n = type(d).__name__
    if n == "Normal":
        return [d.mu, d.sigma2]
    if n == "Uniform":
        return [d.a, d.b]
    if n == "Laplace":
        return [d.mu, d.b]
    if n == "Exponential":
        return [d.lamb]
    raise ValueError(n)


def classify(case, verdict):
    return None


def sample_repr(case, verdict):
    return dict(case, status=verdict["status"])
