"""
C16 - exponent-lattice bases consist of, and generate, all multiplicative relations.

Generator: lists of 1-4 non-zero numbers: rationals +-2^a 3^b 5^c 7^d (non-unit multiplicities, shared primes,
reciprocals, units, repetitions) and algebraic numbers (sqrt2, i, golden ratio, roots of unity, ...).
Oracle: (i) soundness by exact product; (ii) independence by exact rank; (iii) completeness against an
independent reference lattice: own integer-kernel routine (rationals, cross-checked by brute force) /
brute force over the box [-B,B]^k with numeric pre-filter and exact confirmation (algebraic numbers).
"""
import itertools
import os
from fractions import Fraction

from hypothesis import strategies as st

from lib import polar_driver as pd, common, intlattice

PROPERTY_ID = "C16"
RULE = (
    "lists of 1-4 non-zero numbers; rational lists built from prime powers 2,3,5,7 with exponents in -3..3 and sign; "
    "algebraic lists mix {sqrt2,-sqrt2,2**(1/3),i,-i,(1+-sqrt5)/2,1+i,(1+i*sqrt3)/2,2+sqrt3,2-sqrt3,sqrt2*i,1+-sqrt2} with rationals; "
    "non-trivial = the true lattice is non-zero or the list has a shared prime, a unit or a conjugate pair; distinct by the list"
)
ASSUMPTIONS = [
    "reference lattice for rationals: own integer kernel (lib/intlattice.py) of the prime-exponent matrix with parity column, "
    "cross-checked in every case against brute-force enumeration of [-3,3]^k (exact integer arithmetic)",
    "reference for algebraic numbers: all vectors of [-B,B]^k (B=4 for k<=3, 3 for k=4) satisfying the relation - numeric pre-filter on "
    "log-modulus and argument at 60 digits (mpmath), exact confirmation by sympy minimal_polynomial; completeness is decided inside the box only",
]

PRIMES = [2, 3, 5, 7]
ALG = ["sqrt(2)", "-sqrt(2)", "2**(1/3)", "I", "-I", "(1+sqrt(5))/2", "(1-sqrt(5))/2", "1+I", "1-I", "(1+I*sqrt(3))/2",
       "2+sqrt(3)", "2-sqrt(3)", "sqrt(2)*I", "1+sqrt(2)", "1-sqrt(2)", "(-1+I*sqrt(3))/2", "sqrt(3)"]


def budget(tier):
    ex = int(os.environ.get("VERIF_EXAMPLES", "0"))
    if tier == "quick":
        return dict(shards=16, examples=ex or 80, shrink_calls=60, shard_timeout=1500, time_budget=100)
    return dict(shards=16, examples=ex or 20000, shrink_calls=400, shard_timeout=6 * 3600, time_budget=1500)


@st.composite
def rational_number(draw):
    exps = [draw(st.sampled_from([0, 0, 0, 1, -1, 2, -2, 3, -3])) for _ in PRIMES]
    sign = draw(st.sampled_from([1, 1, 1, -1]))
    x = Fraction(sign)
    for p, e in zip(PRIMES, exps):
        x *= Fraction(p) ** e
    return str(x)


@st.composite
def cases(draw, tier="quick"):
    kind = draw(st.sampled_from(["rational"] * 9 + ["algebraic"]))
    if kind == "rational":
        k = draw(st.integers(1, 4))
        nums = [draw(rational_number()) for _ in range(k)]
    else:
        k = draw(st.integers(1, 3 if tier == "quick" else 4))
        nums = []
        for _ in range(k):
            if draw(st.integers(0, 3)) == 0:
                nums.append(draw(rational_number()))
            else:
                nums.append(draw(st.sampled_from(ALG)))
        if all(_is_rational(x) for x in nums):
            nums[0] = draw(st.sampled_from(ALG))
    return {"kind": kind, "bases": nums}


def _is_rational(s):
    try:
        Fraction(s)
        return True
    except ValueError:
        return False


def strategy(tier):
    return cases(tier)


# ------------------------------------------------------------------ reference lattices


def _factor(n):
    n = abs(n)
    out = {}
    p = 2
    while p * p <= n:
        while n % p == 0:
            out[p] = out.get(p, 0) + 1
            n //= p
        p += 1
    if n > 1:
        out[n] = out.get(n, 0) + 1
    return out


def rational_reference(nums):
    """returns (reference basis, exponent matrix rows, signs)"""
    k = len(nums)
    primes = {}
    signs = []
    for i, x in enumerate(nums):
        signs.append(1 if x < 0 else 0)
        for p, m in _factor(x.numerator).items():
            primes.setdefault(p, [0] * k)[i] += m
        for p, m in _factor(x.denominator).items():
            primes.setdefault(p, [0] * k)[i] -= m
    rows = [primes[p] + [0] for p in sorted(primes)]
    rows.append(signs + [2])
    kern = intlattice.integer_kernel(rows, k + 1)
    ref = [v[:k] for v in kern]
    return ref, [primes[p] for p in sorted(primes)], signs


def in_rational_lattice(e, exprows, signs):
    return all(sum(a * b for a, b in zip(r, e)) == 0 for r in exprows) and sum(a * b for a, b in zip(signs, e)) % 2 == 0


def exact_product_is_one(nums, e):
    prod = Fraction(1)
    for x, ei in zip(nums, e):
        prod *= x ** ei
    return prod == 1


def algebraic_box_relations(exprs, B):
    """all e in [-B,B]^k with prod b_i^e_i = 1 (numeric pre-filter, exact confirmation)"""
    import mpmath
    import sympy

    mpmath.mp.dps = 60
    logs = []
    for b in exprs:
        z = mpmath.mpmathify(complex(0)) + mpmath.mpc(*[mpmath.mpf(str(sympy.N(part, 70))) for part in b.as_real_imag()])
        logs.append((mpmath.log(abs(z)), mpmath.arg(z)))
    twopi = 2 * mpmath.pi
    out = []
    x = sympy.Symbol("x")
    for e in itertools.product(range(-B, B + 1), repeat=len(exprs)):
        if not any(e):
            continue
        lm = sum(ei * l[0] for ei, l in zip(e, logs))
        if abs(lm) > mpmath.mpf(10) ** -40:
            continue
        ar = sum(ei * l[1] for ei, l in zip(e, logs)) / twopi
        if abs(ar - mpmath.nint(ar)) > mpmath.mpf(10) ** -40:
            continue
        prod = sympy.Integer(1)
        for b, ei in zip(exprs, e):
            prod *= b ** ei
        if sympy.minimal_polynomial(prod - 1, x) == x:
            out.append(list(e))
    return out


# ------------------------------------------------------------------ the check


def run_case(case, tier="quick"):
    import sympy
    from invariants.exponent_lattice import ExponentLattice

    k = len(case["bases"])
    key = common.case_key(case)
    tags = [case["kind"], f"k={k}"]
    base = {"key": key, "tags": tags}
    exprs = [sympy.sympify(s) for s in case["bases"]]
    tl = 25 if tier == "quick" else 240
    try:
        with pd.time_limit(tl):
            basis = ExponentLattice(exprs).compute_basis()
    except pd.CaseTimeout:
        return dict(base, status="inconclusive", bucket="polar_time_limit")
    except Exception as e:
        return dict(base, status="refusal", bucket=pd.refusal_bucket(e), detail=str(e)[:200])
    basis = [[int(x) for x in v] for v in basis]
    if any(len(v) != k for v in basis):
        return dict(base, status="violation", bucket="shape", detail={"bases": case["bases"], "basis": basis})
    detail = {"bases": case["bases"], "basis": basis}
    if case["kind"] == "rational":
        nums = [Fraction(s) for s in case["bases"]]
        ref, exprows, signs = rational_reference(nums)
        # self-check of the reference against brute force (harness error if it fails)
        box = 3 if k <= 3 else 2
        brute = [list(e) for e in itertools.product(range(-box, box + 1), repeat=k) if any(e) and in_rational_lattice(e, exprows, signs)]
        for e in brute:
            assert exact_product_is_one(nums, e), "reference membership test disagrees with exact product"
            r = intlattice.integer_combination(ref, e)
            assert r is not None and r[1], f"reference kernel misses {e} for {nums}"
        for e in ref:
            assert exact_product_is_one(nums, e)
        nontrivial = bool(ref) or len({p for x in nums for p in list(_factor(x.numerator)) + list(_factor(x.denominator))}) < \
            sum(len(_factor(x.numerator)) + len(_factor(x.denominator)) for x in nums) or any(abs(x) == 1 for x in nums)
        if ref:
            tags.append("lattice_nontrivial")
        if any(abs(m) > 1 for r in exprows for m in r):
            tags.append("non_unit_multiplicity")
        if any(signs):
            tags.append("negative_base")
        base["nontrivial"] = nontrivial
        for v in basis:
            if not exact_product_is_one(nums, v):
                return dict(base, status="violation", bucket="unsound_vector:rational", detail=dict(detail, vector=v, reference=ref))
        if basis and intlattice.rank(basis) != len(basis):
            return dict(base, status="violation", bucket="dependent_basis:rational", detail=dict(detail, reference=ref))
        for e in ref:
            r = intlattice.integer_combination(basis, e)
            if r is None or not r[1]:
                return dict(base, status="violation", bucket="incomplete:rational", detail=dict(detail, missing=e, reference=ref))
        return dict(base, status="ok")
    # algebraic
    B = 4 if k <= 3 else 3
    try:
        with pd.time_limit(tl * 2):
            rel = algebraic_box_relations(exprs, B)
            x = sympy.Symbol("x")
            for v in basis:
                prod = sympy.Integer(1)
                for b, ei in zip(exprs, v):
                    prod *= b ** ei
                if sympy.minimal_polynomial(prod - 1, x) != x:
                    return dict(base, status="violation", bucket="unsound_vector:algebraic", detail=dict(detail, vector=v))
    except pd.CaseTimeout:
        return dict(base, status="gave_up", bucket="oracle_time_limit")
    base["nontrivial"] = bool(rel) or len(set(case["bases"])) < k
    if rel:
        tags.append("lattice_nontrivial")
    if basis and intlattice.rank(basis) != len(basis):
        return dict(base, status="violation", bucket="dependent_basis:algebraic", detail=detail)
    for e in rel:
        r = intlattice.integer_combination(basis, e)
        if r is None or not r[1]:
            return dict(base, status="violation", bucket="incomplete:algebraic", detail=dict(detail, missing=e))
    return dict(base, status="ok", counters={"box_relations": len(rel)})


def classify(case, verdict):
    return None


def sample_repr(case, verdict):
    return {"bases": case["bases"], "kind": case["kind"], "tags": verdict["tags"], "status": verdict["status"]}
