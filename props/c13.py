"""
C13 - Sin/Cos/Exp moments of random variables are the true expectations.

(a) direct: FunctionalAssignment.get_func_moment / get_const_moment against mpmath quadrature (finite sums) of the defining integral
(b) programs with Sin/Cos/Exp assignments of drawn variables, references and constants, against the reference interpreter
    whose functional joint moments come from the same quadrature
"""
import os
from fractions import Fraction

import mpmath
from hypothesis import strategies as st

from lib import lang as L, refsem, polar_driver as pd, common, distref
from lib.lang import fs

PROPERTY_ID = "C13"
RULE = (
    "direct (60%): (family, parameters, a, b, c) with a,b,c in 0..4 for E[X^a sin^b X cos^c X], (a, c) for E[X^a exp(cX)] incl. c at / beyond the mgf "
    "boundary, mixed Exp x Sin/Cos requests, constants; both exact_func_moments settings.  programs (40%): template programs with a draw, optional "
    "reference, 1-3 functional assignments, accumulators, optional branch; goals of degree <= 3.  non-trivial = b+c>=1 (or exp power >=1) and the true "
    "value is not 0 by symmetry; distinct by the whole case"
)
ASSUMPTIONS = [
    "oracle: mpmath quadrature at 40 digits of the defining integral with densities written from their definitions (lib/distref.py), finite sums for discrete families",
    "exact mode compared at 1e-20 relative; rounded mode (Polar rounds every functional moment to ~20 digits) at 1e-15 relative on program results and 1e-18 on single moments",
]

Q = ["1/2", "1/3", "2/3", "1/4", "3/4"]
POS = ["1", "2", "1/2", "3/2", "3"]
LOC = ["0", "1", "-1", "2", "1/2"]


def budget(tier):
    ex = int(os.environ.get("VERIF_EXAMPLES", "0"))
    if tier == "quick":
        return dict(shards=16, examples=ex or 40, shrink_calls=30, shard_timeout=1500, time_budget=110)
    return dict(shards=16, examples=ex or 4000, shrink_calls=200, shard_timeout=6 * 3600, time_budget=1500)


@st.composite
def dist_params(draw, for_program=False):
    name = draw(st.sampled_from(["Normal", "Uniform", "Laplace", "DistExp", "Gamma", "Bernoulli", "DiscreteUniform", "Beta", "Categorical", "TruncNormal"]
                                if not for_program else ["Normal", "Uniform", "Laplace", "DistExp", "Gamma", "Bernoulli", "DiscreteUniform"]))
    if name == "Bernoulli":
        ps = [draw(st.sampled_from(Q))]
    elif name == "Categorical":
        ps = draw(st.sampled_from([["1/2", "1/2"], ["1/3", "1/3", "1/3"], ["1/4", "1/2", "1/4"]]))
    elif name == "DiscreteUniform":
        a = draw(st.integers(-2, 2))
        ps = [str(a), str(a + draw(st.integers(1, 4)))]
    elif name == "Uniform":
        a = Fraction(draw(st.sampled_from(LOC)))
        ps = [fs(a), fs(a + Fraction(draw(st.sampled_from(POS))))]
    elif name in ("Normal", "Laplace"):
        ps = [draw(st.sampled_from(LOC)), draw(st.sampled_from(POS))]
    elif name == "DistExp":
        ps = [draw(st.sampled_from(POS))]
    elif name == "Gamma":
        ps = [draw(st.sampled_from(["1", "2", "3"])), draw(st.sampled_from(POS))]
    elif name == "Beta":
        ps = [draw(st.sampled_from(["1", "2", "3"])), draw(st.sampled_from(["1", "2", "3"]))]
    else:
        ps = ["0", "1", draw(st.sampled_from(["-1", "-2", "0"])), draw(st.sampled_from(["1", "2", "3"]))]
    return name, ps


@st.composite
def program_case(draw):
    name, ps = draw(dist_params(for_program=True))
    body = [["assign", "u", ["draw", name, [L.num(p) for p in ps]]]]
    arg = "u"
    if draw(st.integers(0, 3)) == 0:
        body.append(["assign", "r", ["expr", L.var("u")]])
        arg = "r"
    nf = draw(st.integers(1, 3))
    fvars = []
    funcs = draw(st.sampled_from([["Sin"], ["Cos"], ["Sin", "Cos"], ["Exp"], ["Sin", "Sin"], ["Cos", "Sin", "Cos"], ["Exp", "Exp"], ["Sin", "Exp"]]))
    for i, fn in enumerate(funcs[:nf]):
        fv = ["s", "c", "g"][i]
        a = arg
        if draw(st.integers(0, 5)) == 0:
            a = draw(st.sampled_from(["1", "2", "0.5", "0", "3"]))
        body.append(["assign", fv, ["func", fn, a]])
        fvars.append(fv)
    use_branch = draw(st.integers(0, 3)) == 0
    init = [["assign", "y", ["expr", L.num(draw(st.sampled_from([0, 1, -1])))]], ["assign", "z", ["expr", L.num(0)]]]
    upd = []
    for tgt in ["y", "z"][: draw(st.integers(1, 2))]:
        terms = [L.var(tgt)] if draw(st.integers(0, 3)) > 0 else [["div", L.var(tgt), "2"]]
        for _ in range(draw(st.integers(1, 2))):
            f1 = draw(st.sampled_from(fvars + ["u"]))
            tm = L.var(f1)
            if draw(st.integers(0, 2)) == 0:
                tm = ["mul", tm, L.var(draw(st.sampled_from(fvars + ["u"])))]
            terms.append(tm)
        e = terms[0]
        for tm in terms[1:]:
            e = ["add", e, tm]
        upd.append(["assign", tgt, ["expr", e]])
    if use_branch:
        init.append(["assign", "b", ["expr", L.num(0)]])
        body.append(["assign", "b", ["draw", "Bernoulli", [L.num(draw(st.sampled_from(Q)))]]])
        body.append(["if", [[["cmp", L.var("b"), "==", L.num(1)], upd]], None])
    else:
        body += upd
    for v in ["u"] + fvars + (["r"] if arg == "r" else []):
        init.append(["assign", v, ["expr", L.num(0)]])
    prog = {"types": {}, "init": init, "guard": ["true"], "body": body}
    pool = fvars + ["y", "u"] + (["z"] if len(upd) == 2 else [])
    goals = []
    for _ in range(draw(st.integers(1, 2))):
        mono = {}
        for _ in range(draw(st.integers(1, 3))):
            v = draw(st.sampled_from(pool))
            mono[v] = mono.get(v, 0) + 1
        if mono not in goals:
            goals.append(mono)
    return {"what": "program", "prog": prog, "goals": goals, "exact": draw(st.booleans())}


@st.composite
def cases(draw, tier="quick"):
    r = draw(st.integers(0, 9))
    if r >= 6:
        return draw(program_case())
    name, ps = draw(dist_params())
    kind = draw(st.sampled_from(["trig"] * 5 + ["exp"] * 3 + ["mixed", "const"]))
    case = {"what": "direct", "family": name, "params": ps, "kind": kind, "exact": draw(st.booleans())}
    case["a"] = draw(st.integers(0, 3))
    if kind == "trig":
        case["b"], case["c"] = draw(st.integers(0, 4)), draw(st.integers(0, 4))
        if case["b"] + case["c"] == 0:
            case["b"] = 1
    elif kind == "exp":
        case["d"] = draw(st.integers(1, 3))
    elif kind == "mixed":
        case["b"], case["c"], case["d"] = draw(st.integers(0, 2)), draw(st.integers(0, 2)), draw(st.integers(1, 2))
        if case["b"] + case["c"] == 0:
            case["b"] = 1
    else:
        case["func"] = draw(st.sampled_from(["Sin", "Cos", "Exp"]))
        case["arg"] = draw(st.sampled_from(["0", "1", "2", "-1", "1/2", "3"]))
        case["k"] = draw(st.integers(1, 4))
    return case


def strategy(tier):
    return cases(tier)


def _mpc_of(e):
    import sympy

    v = sympy.N(sympy.sympify(str(e)) if not isinstance(e, sympy.Basic) else e, 45)
    re_, im_ = v.as_real_imag()
    return mpmath.mpc(mpmath.mpf(str(re_)), mpmath.mpf(str(im_)))


def run_case(case, tier="quick"):
    mpmath.mp.dps = 40
    key = common.case_key(case)
    tl = 25 if tier == "quick" else 180
    if case["what"] == "program":
        return _program(case, key, tl)
    from program.assignment import FunctionalAssignment
    from program.distribution import distribution_factory

    pd.set_settings(exact_func_moments=case["exact"])
    name, ps, kind = case["family"], case["params"], case["kind"]
    tags = ["direct", kind, name, "exact_mode" if case["exact"] else "rounded_mode"]
    base = {"key": key, "tags": tags}
    detail = {"case": case}
    tol = mpmath.mpf(10) ** (-20 if case["exact"] else -18)
    if name == "TruncNormal":
        tol = mpmath.mpf(10) ** -9
    try:
        with pd.time_limit(tl):
            if kind == "const":
                fa = FunctionalAssignment("s", case["func"], case["arg"])
                got = _mpc_of(fa.get_const_moment(case["k"]))
                x = Fraction(case["arg"])
                kd = {"Sin": 1, "Cos": 2, "Exp": 3}[case["func"]]
                truth = distref.func_joint_moment(("point", x), 0, case["k"] if kd == 1 else 0, case["k"] if kd == 2 else 0, case["k"] if kd == 3 else 0)
                base["nontrivial"] = True
                if abs(got - truth) > tol * max(1, abs(truth)):
                    return dict(base, status="violation", bucket="const_moment", detail=dict(detail, polar=str(got), truth=str(truth)))
                return dict(base, status="ok")
            fam = distref.to_family(name, ps)
            d = distribution_factory(name, list(ps))
            a = case["a"]
            powers = {}
            if a:
                powers["Id"] = a
            b = c = dd = 0
            if kind in ("trig", "mixed"):
                b, c = case["b"], case["c"]
                if b:
                    powers["Sin"] = b
                if c:
                    powers["Cos"] = c
            if kind in ("exp", "mixed"):
                dd = case["d"]
                powers["Exp"] = dd
            exists = True
            truth = None
            try:
                truth = distref.func_joint_moment(fam, a, b, c, dd)
            except ValueError:
                exists = False
            if not exists:
                tags.append("moment_does_not_exist")
            try:
                m = FunctionalAssignment.get_func_moment(d, powers)
            except pd.CaseTimeout:
                raise
            except Exception as e:
                return dict(base, status="refusal", bucket=pd.refusal_bucket(e), detail=str(e)[:200], nontrivial=not exists)
            got = _mpc_of(m)
            if not exists:
                return dict(base, status="violation", bucket=f"nonexistent_moment_answered:{name}", nontrivial=True, detail=dict(detail, polar=str(got)))
            base["nontrivial"] = abs(truth) > mpmath.mpf(10) ** -30
            if mpmath.isnan(got.real):
                return dict(base, status="refusal", bucket=f"undefined_value:{name}")
            if abs(got - truth) > tol * max(1, abs(truth)):
                # one quadrature over the whole range is not always good to 1e-20 for an oscillating integrand with heavy tails
                # (Laplace(0,3), x**2 sin**4 cos**3: off by 5e-20): decide with the piecewise quadrature and its error estimate
                ref = distref.func_joint_moment_refined(fam, a, b, c, dd)
                if ref is not None:
                    if ref[1] > tol / 100:
                        return dict(base, status="gave_up", bucket="oracle_not_accurate_enough")
                    tags.append("oracle_refined")
                    if abs(got - ref[0]) <= tol * max(1, abs(ref[0])):
                        return dict(base, status="ok", counters={"decided_by_refined_quadrature": 1})
                    truth = ref[0]
                return dict(base, status="violation", bucket=f"func_moment:{kind}:{name}", detail=dict(detail, polar=str(got), truth=str(truth)))
            return dict(base, status="ok")
    except pd.CaseTimeout:
        return dict(base, status="inconclusive", bucket="time_limit")


def _refined_hook(fam, a, b, c, d):
    ref = distref.func_joint_moment_refined(fam, a, b, c, d)
    if ref is None:
        return distref.func_joint_moment(fam, a, b, c, d)
    if ref[1] > mpmath.mpf(10) ** -25:
        raise ValueError("refined quadrature not accurate enough")
    return ref[0]


def _program(case, key, tl):
    prog = case["prog"]
    text = L.render_program(prog)
    tags = ["program", "exact_mode" if case["exact"] else "rounded_mode"] + L.count_constructs(prog)
    base = {"key": key, "tags": tags}
    refsem.set_func_moment_hook(lambda fam, a, b, c, d: distref.func_joint_moment(fam, a, b, c, d))
    results = {}
    try:
        with pd.time_limit(tl):
            an = pd.Analysis(text, {"exact_func_moments": case["exact"]})
            for mono in case["goals"]:
                try:
                    results[pd.monomial_to_str(mono)] = (mono, an.moment(mono))
                except pd.CaseTimeout:
                    raise
                except Exception as e:
                    results[pd.monomial_to_str(mono)] = (mono, e)
    except pd.CaseTimeout:
        return dict(base, status="inconclusive", bucket="polar_time_limit")
    except Exception as e:
        return dict(base, status="refusal", bucket=pd.refusal_bucket(e), detail=str(e)[:200])
    good = {k: v for k, v in results.items() if not isinstance(v[1], Exception)}
    if not good:
        e = next(iter(results.values()))[1]
        return dict(base, status="refusal", bucket=pd.refusal_bucket(e), detail=str(e)[:200])
    N = 4
    refined = [False]
    try:
        with pd.time_limit(tl * 2):
            runs = common.oracle_runs(prog, [{}], N, max_states=2000)
            env, un, it, dists = runs[0]
            nontrivial = False
            for k, (mono, (expr, exact)) in good.items():
                for n in range(N + 1):
                    try:
                        truth = refsem.expectation(dists[n], mono, it)
                    except ValueError:
                        return dict(base, status="violation", bucket="nonexistent_moment_answered:program", nontrivial=True,
                                    detail={"program": text, "goal": k, "closed_form": str(expr)})
                    pv = pd.eval_closed_form(expr, n)
                    if isinstance(truth, Fraction):
                        ok = pd.values_equal(pv, truth, 40 if case["exact"] else 14)
                    else:
                        ok = pd.values_equal(pv, truth, 20 if case["exact"] else 14)
                        nontrivial = nontrivial or abs(truth) > 1e-30
                    if not ok and not isinstance(truth, Fraction) and not refined[0]:
                        # same reason as in the direct check: recompute the oracle with the piecewise quadrature before judging
                        refined[0] = True
                        refsem.set_func_moment_hook(_refined_hook)
                        runs = common.oracle_runs(prog, [{}], N, max_states=2000)
                        env, un, it, dists = runs[0]
                        truth = refsem.expectation(dists[n], mono, it)
                        ok = pd.values_equal(pv, truth, 20 if case["exact"] else 14)
                        tags.append("oracle_refined")
                    if not ok:
                        return dict(base, status="violation", bucket="program_func_moment", nontrivial=True,
                                    detail={"program": text, "goal": k, "n": n, "polar": str(pv), "truth": str(truth), "closed_form": str(expr)[:500],
                                            "exact_mode": case["exact"]})
    except refsem.OracleGiveUp as e:
        return dict(base, status="gave_up", bucket=str(e)[:60])
    except ValueError as e:
        return dict(base, status="gave_up", bucket="oracle:" + str(e)[:60])
    except pd.CaseTimeout:
        return dict(base, status="inconclusive", bucket="evaluation_time_limit")
    return dict(base, status="ok", nontrivial=nontrivial)


def classify(case, verdict):
    return None


def sample_repr(case, verdict):
    s = {k: v for k, v in case.items() if k != "prog"}
    if "prog" in case:
        s["program"] = L.render_program(case["prog"])
    s["status"] = verdict["status"]
    return s
