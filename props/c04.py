"""
C04 - solved closed forms reproduce the linear recurrence sequence for all n.

Generator: recurrence systems x(n+1) = A x(n) + c built directly (no programs): matrix families with
controlled Jordan structure.  Oracle: own matrix iteration over Fractions.
"""
import os
from fractions import Fraction

from hypothesis import strategies as st

from lib import polar_driver as pd, common
from lib.lang import fs

PROPERTY_ID = "C04"
RULE = (
    "recurrence systems of dimension 1-5 from matrix families (diagonal, triangular, nilpotent/shift, companion of prescribed "
    "rational/irrational/complex root multisets, block mixes, unimodular similarity transforms, parametric entries, constant "
    "inhomogeneous part); solver vectors: default dispatch, forced cyclic, numeric_roots/numeric_croots with eps in {1e-6,1e-10}; "
    "non-trivial = A not diagonal and v != 0; distinct by (A, c, v, options)"
)
ASSUMPTIONS = [
    "oracle: plain matrix iteration over fractions.Fraction for n = 0..2*dim+4 (parameters substituted by rationals)",
    "flagged exact => exact equality (1e-40 when the closed form contains radicals / CRootOf); flagged rounded => "
    "|value - truth| <= 1e-3 * max(1, (|A|^n |v|)_i), judged only for eps <= 1e-10",
]

NAMES = ["ma", "mb", "mc", "md", "mf"]

LIN = ["0", "1", "-1", "1/2", "2", "-2", "1/3", "3", "-1/2", "3/2"]
QUAD = {  # monic quadratics (c1, c0) for x^2 + c1 x + c0 with irrational / complex roots
    "1+-sqrt2": ("-2", "-1"),
    "+-i": ("0", "1"),
    "golden": ("-1", "-1"),
    "1+-i": ("-2", "2"),
    "cubic_unity": ("1", "1"),
    "+-sqrt2": ("0", "-2"),
    "(1+-i)/2": ("-1", "1/2"),
    "+-i/2": ("0", "1/4"),
}


def budget(tier):
    ex = int(os.environ.get("VERIF_EXAMPLES", "0"))
    if tier == "quick":
        return dict(shards=16, examples=ex or 40, shrink_calls=30, shard_timeout=1500, time_budget=100)
    return dict(shards=16, examples=ex or 5000, shrink_calls=400, shard_timeout=6 * 3600, time_budget=1500)


def _polymul(p, q):
    r = [Fraction(0)] * (len(p) + len(q) - 1)
    for i, a in enumerate(p):
        for j, b in enumerate(q):
            r[i + j] += a * b
    return r


def _companion(coeffs):
    """coeffs low->high of a monic polynomial of degree d; returns d x d companion matrix (rows)"""
    d = len(coeffs) - 1
    A = [[Fraction(0)] * d for _ in range(d)]
    for i in range(d - 1):
        A[i][i + 1] = Fraction(1)
    for j in range(d):
        A[d - 1][j] = -coeffs[j]
    return A


def _matmul(A, B):
    n, m, k = len(A), len(B[0]), len(B)
    return [[sum(A[i][t] * B[t][j] for t in range(k)) for j in range(m)] for i in range(n)]


@st.composite
def systems(draw):
    fam = draw(st.sampled_from(["companion", "companion", "companion", "triangular", "triangular", "nilpotent", "diag",
                                "block", "general", "param"]))
    small = st.sampled_from([Fraction(x) for x in ["0", "1", "-1", "2", "1/2", "-2", "3", "1/3", "-1/2"]])
    nz = st.sampled_from([Fraction(x) for x in ["1", "-1", "2", "1/2", "-2", "3", "1/3"]])
    param = None
    if fam in ("companion", "block"):
        poly = [Fraction(1)]
        factors = []
        deg = 0
        target = draw(st.integers(1, 5))
        while deg < target:
            if target - deg >= 2 and draw(st.integers(0, 2)) == 0:
                name = draw(st.sampled_from(sorted(QUAD)))
                c1, c0 = QUAD[name]
                poly = _polymul(poly, [Fraction(c0), Fraction(c1), Fraction(1)])
                factors.append(name)
                deg += 2
            else:
                r = Fraction(draw(st.sampled_from(LIN)))
                poly = _polymul(poly, [-r, Fraction(1)])
                factors.append(fs(r))
                deg += 1
        A = _companion(poly)
        tags = ["fam:" + fam] + ["root:" + f for f in factors]
        if len(set(factors)) < len(factors):
            tags.append("repeated_root")
        if fam == "block" or draw(st.booleans()):
            # unimodular similarity transform: product of elementary row operations and its inverse
            d = len(A)
            for _ in range(draw(st.integers(1, 3))):
                i, j = draw(st.integers(0, d - 1)), draw(st.integers(0, d - 1))
                if i == j:
                    continue
                k = Fraction(draw(st.sampled_from([1, -1, 2])))
                E = [[Fraction(int(a == b)) for b in range(d)] for a in range(d)]
                Einv = [row[:] for row in E]
                E[i][j] = k
                Einv[i][j] = -k
                A = _matmul(_matmul(E, A), Einv)
            tags.append("similarity")
    elif fam == "triangular":
        d = draw(st.integers(1, 5))
        A = [[(draw(small) if j <= i else Fraction(0)) for j in range(d)] for i in range(d)]
        tags = ["fam:triangular"]
        if any(A[i][i] == 0 for i in range(d)):
            tags.append("zero_diagonal")
        if len({A[i][i] for i in range(d)}) < d:
            tags.append("repeated_root")
    elif fam == "nilpotent":
        d = draw(st.integers(2, 5))
        A = [[Fraction(0)] * d for _ in range(d)]
        perm = draw(st.permutations(range(d)))
        for a in range(d - 1):
            A[perm[a + 1]][perm[a]] = draw(nz)
            if a >= 1 and draw(st.booleans()):
                A[perm[a + 1]][perm[draw(st.integers(0, a - 1))]] = draw(nz)
        if draw(st.booleans()):
            A[perm[d - 1]][perm[d - 1]] = draw(small)
        tags = ["fam:nilpotent", "zero_diagonal"]
    elif fam == "diag":
        d = draw(st.integers(1, 4))
        A = [[(draw(small) if i == j else Fraction(0)) for j in range(d)] for i in range(d)]
        tags = ["fam:diag"]
    elif fam == "general":
        d = draw(st.integers(2, 4))
        A = [[draw(small) for j in range(d)] for i in range(d)]
        tags = ["fam:general"]
    else:  # param
        d = draw(st.integers(1, 3))
        A = [[(draw(small) if j <= i else Fraction(0)) for j in range(d)] for i in range(d)]
        pi, pj = draw(st.integers(0, d - 1)), draw(st.integers(0, d - 1))
        if pj > pi:
            pi, pj = pj, pi
        param = {"pos": [pi, pj], "value": draw(st.sampled_from(["1/3", "2/5", "3/7"]))}
        tags = ["fam:param", "param_on_diagonal" if pi == pj else "param_off_diagonal"]
    d = len(A)
    c = [Fraction(0)] * d
    if draw(st.integers(0, 2)) == 0:
        c = [draw(small) for _ in range(d)]
        if any(c):
            tags.append("inhomogeneous")
    v = [draw(small) for _ in range(d)]
    vparam = None
    if draw(st.integers(0, 5)) == 0:
        vparam = {"pos": draw(st.integers(0, d - 1)), "value": draw(st.sampled_from(["5/2", "-3", "7"]))}
        tags.append("symbolic_initial_value")
    opts = draw(st.sampled_from([{}] * 5 + [{"numeric_roots": True, "numeric_eps": 1e-10}, {"numeric_roots": True, "numeric_eps": 1e-6},
                                            {"numeric_croots": True}, {"numeric_roots": True, "numeric_croots": True, "numeric_eps": 1e-10}]))
    return {"A": [[fs(x) for x in row] for row in A], "c": [fs(x) for x in c], "v": [fs(x) for x in v],
            "param": param, "vparam": vparam, "opts": opts, "tags": tags}


def strategy(tier):
    return systems()


def build_recurrences(case):
    import sympy
    from recurrences import Recurrences

    d = len(case["A"])
    xs = [sympy.Symbol(NAMES[i]) for i in range(d)]
    P = sympy.Symbol("p")
    V0 = sympy.Symbol("w0")
    rec, init = {}, {}
    for i in range(d):
        e = sympy.Integer(0)
        for j in range(d):
            a = Fraction(case["A"][i][j])
            co = sympy.Rational(a.numerator, a.denominator)
            if case["param"] and case["param"]["pos"] == [i, j]:
                co = P
            e += co * xs[j]
        ci = Fraction(case["c"][i])
        e += sympy.Rational(ci.numerator, ci.denominator)
        rec[xs[i]] = sympy.expand(e)
        vi = Fraction(case["v"][i])
        init[xs[i]] = sympy.Rational(vi.numerator, vi.denominator)
        if case["vparam"] and case["vparam"]["pos"] == i:
            init[xs[i]] = V0
    return Recurrences(rec, init, None, const_symbols=[P, V0]), xs


def reference(case, nmax):
    d = len(case["A"])
    A = [[Fraction(x) for x in row] for row in case["A"]]
    if case["param"]:
        i, j = case["param"]["pos"]
        A[i][j] = Fraction(case["param"]["value"])
    c = [Fraction(x) for x in case["c"]]
    v = [Fraction(x) for x in case["v"]]
    if case["vparam"]:
        v[case["vparam"]["pos"]] = Fraction(case["vparam"]["value"])
    seq = [v]
    absA = [[abs(x) for x in row] for row in A]
    absseq = [[abs(x) for x in v]]
    for _ in range(nmax):
        v = [sum(A[i][j] * v[j] for j in range(d)) + c[i] for i in range(d)]
        seq.append(v)
        w = absseq[-1]
        absseq.append([sum(absA[i][j] * w[j] for j in range(d)) + abs(c[i]) for i in range(d)])
    return seq, absseq


def _solve_all(case, force_cyclic, opts):
    """returns (list of closed forms per component, is_exact, solver kind)"""
    from recurrences.solver import RecurrenceSolver

    pd.set_settings()
    recs, xs = build_recurrences(case)
    s = RecurrenceSolver(recs, opts.get("numeric_roots"), opts.get("numeric_croots"), opts.get("numeric_eps"),
                         force_cyclic_solver=force_cyclic)
    sols = [s.get(x) for x in xs]
    return sols, bool(s.is_exact), type(s.solver).__name__


def run_case(case, tier="quick"):
    """isolated parameter values at which the generic formula has a pole are redrawn (DESIGN section 6)"""
    if not case.get("param"):
        return _run_case(case, tier)
    v = None
    for i, alt in enumerate([case["param"]["value"], "5/11", "7/13"]):
        c2 = dict(case, param=dict(case["param"], value=alt))
        v = _run_case(c2, tier)
        if not (v["status"] == "violation" and str(v.get("bucket", "")).startswith("undefined_value")):
            if i:
                v.setdefault("counters", {})["pole_points_redrawn"] = i
            return v
    return v


def _run_case(case, tier="quick"):
    import sympy

    d = len(case["A"])
    nmax = 2 * d + 4
    tl = 6 if tier == "quick" else 60
    key = common.case_key({k: case[k] for k in ("A", "c", "v", "param", "vparam", "opts")})
    tags = list(case["tags"])
    nontrivial = any(case["A"][i][j] != "0" for i in range(d) for j in range(d) if i != j) and any(x != "0" for x in case["v"])
    base = {"key": key, "tags": tags, "nontrivial": nontrivial}
    seq, absseq = reference(case, nmax)
    subs = {}
    if case["param"]:
        subs["p"] = Fraction(case["param"]["value"])
    if case["vparam"]:
        subs["w0"] = Fraction(case["vparam"]["value"])
    opts = case["opts"]
    numeric = bool(opts.get("numeric_roots") or opts.get("numeric_croots"))
    outcomes = []
    for force in (False, True):
        try:
            with pd.time_limit(tl):
                sols, exact, kind = _solve_all(case, force, opts)
        except pd.CaseTimeout:
            # an interrupted sympy computation can leave its caches (CRootOf intervals) inconsistent:
            # nothing further is evaluated in this process
            return dict(base, status="inconclusive", bucket="time_limit")
        except RecursionError:
            outcomes.append(("inconclusive", None))
            continue
        except Exception as e:
            outcomes.append(("refusal", pd.refusal_bucket(e)))
            continue
        tags.append(kind + ("" if exact else ":rounded"))
        ms = max(pd.max_special_case(s) for s in sols)
        if ms >= 2:
            tags.append("special_cases>=2")
        try:
            with pd.time_limit(tl * 3):
                for i in range(d):
                    for n in range(nmax + 1):
                        truth = seq[n][i]
                        try:
                            pv = pd.eval_closed_form(sols[i], n, subs)
                        except ValueError:
                            return dict(base, status="violation", bucket=f"undefined_value:{kind}",
                                        detail={"component": i, "n": n, "closed_form": str(sols[i]), "case": case})
                        if exact:
                            ok = pd.values_equal(pv, truth, 40)
                        else:
                            eps = opts.get("numeric_eps", 1e-10)
                            if eps > 1e-10 and opts.get("numeric_roots"):
                                ok = True  # only judged for eps <= 1e-10
                            else:
                                bound = 1e-3 * max(1.0, float(absseq[n][i]))
                                pvf = complex(sympy.N(pv, 30)) if not isinstance(pv, Fraction) else complex(float(pv))
                                ok = abs(pvf - float(truth)) <= bound
                        if not ok:
                            return dict(base, status="violation",
                                        bucket=f"wrong_value:{kind}:{'exact' if exact else 'rounded'}:{'numeric' if numeric else 'default'}",
                                        detail={"component": i, "n": n, "polar": str(pv), "truth": fs(truth), "closed_form": str(sols[i]),
                                                "flag_exact": exact, "solver": kind, "forced_cyclic": force, "case": case})
        except pd.CaseTimeout:
            return dict(base, status="inconclusive", bucket="evaluation_time_limit")
        outcomes.append(("ok", kind))
    base["tags"] = tags
    st_ = [o[0] for o in outcomes]
    if "ok" in st_:
        return dict(base, status="ok", counters={"solver_runs_ok": st_.count("ok"), "solver_refusals": st_.count("refusal"),
                                                 "solver_inconclusive": st_.count("inconclusive")})
    if "refusal" in st_:
        return dict(base, status="refusal", bucket=[o[1] for o in outcomes if o[0] == "refusal"][0])
    return dict(base, status="inconclusive", bucket="time_limit")


def classify(case, verdict):
    return None


def sample_repr(case, verdict):
    return {"A": case["A"], "c": case["c"], "v": case["v"], "param": case["param"], "vparam": case["vparam"],
            "opts": case["opts"], "tags": verdict["tags"], "status": verdict["status"]}
