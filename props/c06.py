"""
C06 - every reported polynomial invariant holds on the goal sequences.

(a) direct: InvariantIdeal({name: closed form}).compute_basis() on generated exponential polynomials (rational and algebraic bases,
    Piecewise special cases); every basis element must vanish on the exact goal values for n past the special cases.
(b) end-to-end: generated programs through GoalsAction.handle_all_goals with --invariants; the printed basis is evaluated on the
    reference interpreter's exact moments / central moments / cumulants.
"""
import os
import re
from fractions import Fraction

from hypothesis import strategies as st

from lib import gen, lang as L, refsem, polar_driver as pd, common, invgen
from lib.lang import fs

PROPERTY_ID = "C06"
RULE = (
    "direct (80%): 2-4 closed forms sum c*n^j*b^n with bases from a per-case pool of 1-3 numbers out of {2,3,4,8,1/2,1/4,-1,-2,6,9,27,2/3,3/2,...} "
    "(40% of cases also sqrt2, i, golden ratio, ...), degrees j<=2, some with Piecewise special cases; end-to-end (20%): generated programs with goal sets "
    "mixing E(.), c2(.), k3(.); non-trivial = non-empty basis and at least one non-constant goal; distinct by the case"
)
ASSUMPTIONS = [
    "direct: goal values are exact Fractions (rational bases) or exact sympy numbers checked with adaptive-precision evaluation (1e-40)",
    "end-to-end: exact moments from lib/refsem.py; central moments / cumulants by the definitions (props/c11.py)",
    "Groebner computations are time limited (a limit is 'inconclusive')",
]


def budget(tier):
    ex = int(os.environ.get("VERIF_EXAMPLES", "0"))
    if tier == "quick":
        return dict(shards=16, examples=ex or 50, shrink_calls=40, shard_timeout=1500, time_budget=110)
    return dict(shards=16, examples=ex or 5000, shrink_calls=300, shard_timeout=6 * 3600, time_budget=1500)


@st.composite
def cases(draw, tier="quick"):
    r = draw(st.integers(0, 9))
    if r >= 8:
        prog, meta = draw(gen.programs("discrete", uninit_ok=False, max_body=3))
        assigned = sorted(L.stmts_assigned(prog["body"]))
        goals = []
        for _ in range(draw(st.integers(2, 3))):
            v = draw(st.sampled_from(assigned))
            kind = draw(st.sampled_from(["E", "E", "E", "c2", "k2", "k3", "E2"]))
            g = {"E": f"E({v})", "E2": f"E({v}**2)", "c2": f"c2({v})", "k2": f"k2({v})", "k3": f"k3({v})"}[kind]
            if g not in goals:
                goals.append(g)
        return {"what": "program", "prog": prog, "goals": goals}
    algebraic = draw(st.integers(0, 9)) >= 6
    goals = draw(invgen.closed_forms(2, 4 if not algebraic else 3, algebraic=algebraic))
    return {"what": "direct", "goals": goals, "algebraic": algebraic}


def strategy(tier):
    return cases(tier)


def compute_basis(goals):
    from invariants import InvariantIdeal

    cfs = {invgen.NAMES[i]: invgen.goal_expr(g) for i, g in enumerate(goals)}
    return sorted(InvariantIdeal(cfs).compute_basis(), key=str)


def run_case(case, tier="quick"):
    import sympy

    key = common.case_key(case)
    tl = 20 if tier == "quick" else 180
    pd.set_settings()
    if case["what"] == "program":
        return _program(case, key, tl)
    goals = case["goals"]
    tags = ["direct", "algebraic" if case["algebraic"] else "rational", f"k={len(goals)}"]
    base = {"key": key, "tags": tags}
    try:
        with pd.time_limit(tl):
            basis = compute_basis(goals)
    except pd.CaseTimeout:
        return dict(base, status="inconclusive", bucket="groebner_time_limit")
    except Exception as e:
        return dict(base, status="refusal", bucket=pd.refusal_bucket(e), detail=str(e)[:200])
    nonconst = any(any(j > 0 or b != "1" for _, j, b in g["terms"]) for g in goals)
    base["nontrivial"] = bool(basis) and nonconst
    if basis:
        tags.append("basis_nonempty")
    syms = [sympy.Symbol(invgen.NAMES[i]) for i in range(len(goals))]
    n0 = invgen.first_general_n(goals)
    rational = all(invgen.is_rational_goal(g) for g in goals)
    try:
        with pd.time_limit(tl * 2):
            for nval in range(n0, n0 + 13):
                if rational:
                    vals = [invgen.goal_value(g, nval) for g in goals]
                    rep = {s: sympy.Rational(v.numerator, v.denominator) for s, v in zip(syms, vals)}
                else:
                    rep = {s: invgen.goal_value_sym(g, nval) for s, g in zip(syms, goals)}
                for b in basis:
                    val = b.xreplace(rep)
                    if rational:
                        ok = sympy.expand(val) == 0
                    else:
                        val = sympy.expand(val)
                        if val == 0:
                            ok = True
                        else:
                            num = pd.robust_numeric(val)
                            scale = max([1.0] + [abs(complex(sympy.N(x, 20))) for x in rep.values()])
                            ok = abs(complex(num)) <= 1e-40 * scale ** max(1, sympy.Poly(b, *syms).total_degree())
                    if not ok:
                        return dict(base, status="violation", bucket="invariant_does_not_vanish:" + ("rational" if rational else "algebraic"),
                                    detail={"goals": goals, "closed_forms": [str(invgen.goal_expr(g)) for g in goals], "basis": [str(x) for x in basis],
                                            "element": str(b), "n": nval, "value": str(val)[:200]})
    except pd.CaseTimeout:
        return dict(base, status="inconclusive", bucket="evaluation_time_limit")
    return dict(base, status="ok", counters={"basis_elements_checked": len(basis)})


def _goal_truth(goal, laws_by_var, n):
    """exact value of E(v) / E(v**2) / c2(v) / k2(v) / k3(v) from the exact law of v at iteration n"""
    from props import c11

    m = re.match(r"(E|c2|k2|k3)\((\w+)(\*\*2)?\)", goal)
    kind, v, sq = m.group(1), m.group(2), m.group(3)
    lw = [[fs(x), fs(p)] for x, p in laws_by_var[v][n]]
    if kind == "E":
        return c11.raw_moment(lw, 2 if sq else 1)
    if kind == "c2":
        return c11.central_moment(lw, 2)
    k = int(kind[1])
    return c11.cumulant_from_moments({i: c11.raw_moment(lw, i) for i in range(1, k + 1)}, k)


def _program(case, key, tl):
    import sympy

    prog = case["prog"]
    text = L.render_program(prog)
    tags = ["program"] + L.count_constructs(prog)
    base = {"key": key, "tags": tags}
    try:
        with pd.time_limit(tl * 2):
            an = pd.Analysis(text, cli_over={"goals": list(case["goals"]), "invariants": True})
            ga = an.goals_action()
            with pd.captured_stdout() as buf:
                ga.handle_all_goals()
    except pd.CaseTimeout:
        return dict(base, status="inconclusive", bucket="polar_time_limit")
    except Exception as e:
        return dict(base, status="refusal", bucket=pd.refusal_bucket(e), detail=str(e)[:200])
    out = re.sub(r"\x1b\[[0-9;]*m", "", buf.getvalue())
    # special cases Polar lists for the goals
    maxcase = 0
    for ln in out.splitlines():
        if " = " in ln and re.match(r"(E|c\d|k\d)\(", ln) and "| n=" not in ln:
            maxcase = max(maxcase, ln.split(" = ", 1)[1].count("; "))
    polys = []
    section = out.split("Invariants", 1)[1] if "Invariants" in out else ""
    for ln in section.splitlines():
        ln = ln.strip()
        if ln.endswith("= 0"):
            polys.append(ln[:-3].strip())
    base["nontrivial"] = bool(polys)
    if not polys:
        return dict(base, status="ok", counters={"no_invariants_reported": 1})
    tags.append("basis_nonempty")
    # goal identifiers are not valid identifiers: map them to symbols
    ids = sorted(set(re.findall(r"(?:E|c\d|k\d)\([^()]*\)", " ".join(polys))), key=len, reverse=True)
    variables = sorted({re.match(r"(?:E|c\d|k\d)\((\w+)", g).group(1) for g in ids})
    N = min(8, maxcase + 4)
    try:
        runs = common.oracle_runs(prog, [{}], N, max_states=5000)
        env, un, it, dists = runs[0]
        laws = {}
        for v in variables:
            laws[v] = []
            for d in dists:
                acc = {}
                for pr, stt in d:
                    x = stt.v[v].cval()
                    acc[x] = acc.get(x, 0) + pr
                laws[v].append(sorted(acc.items()))
    except refsem.OracleGiveUp as e:
        return dict(base, status="gave_up", bucket=str(e)[:60])
    for ptxt in polys:
        expr_txt = ptxt
        rep_syms = {}
        for i, g in enumerate(ids):
            expr_txt = expr_txt.replace(g, f"GG{i}")
            rep_syms[f"GG{i}"] = g
        try:
            pexpr = sympy.sympify(expr_txt)
        except Exception:
            return dict(base, status="gave_up", bucket="unparsable_invariant")
        for n in range(maxcase + 1, N + 1):
            rep = {}
            for sname, g in rep_syms.items():
                t = _goal_truth(g, laws, n)
                rep[sympy.Symbol(sname)] = sympy.Rational(t.numerator, t.denominator)
            val = sympy.expand(pexpr.xreplace(rep))
            if val.free_symbols:
                continue
            if val != 0:
                return dict(base, status="violation", bucket="program_invariant_does_not_vanish", nontrivial=True,
                            detail={"program": text, "goals": case["goals"], "invariant": ptxt, "n": n, "value": str(val), "output": out[-1500:]})
    return dict(base, status="ok", counters={"basis_elements_checked": len(polys)})


def classify(case, verdict):
    return None


def sample_repr(case, verdict):
    if case["what"] == "program":
        return {"program": L.render_program(case["prog"]), "goals": case["goals"], "status": verdict["status"], "tags": verdict["tags"]}
    return {"closed_forms": [str(invgen.goal_expr(g)) for g in case["goals"]], "status": verdict["status"], "tags": verdict["tags"]}
