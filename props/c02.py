"""
C02 - every normalization pass preserves the program's distribution over its variables.

Snapshots of the program after each Transformer.execute that the real normalize_program performs are read back and interpreted by the exact
reference semantics; at every iteration boundary the joint law over the source program's variables must equal that of the source AST.
"""
import itertools
import os
from fractions import Fraction

from hypothesis import strategies as st

from lib import gen, lang as L, refsem, polar_driver as pd, common, snapshot

PROPERTY_ID = "C02"
RULE = (
    "programs from profiles discrete (50%), mixed (30%), guarded (10%), edge (10%); options transform_categoricals x cond2arithm (all four); "
    "non-trivial = at least two passes changed the program text and the program has an if, a guard, a repeated assignment, a choice or a draw with "
    "variable parameters; distinct by (program, options)"
)
ASSUMPTIONS = [
    "every snapshot is interpreted by lib/refsem.py for n=0..4; finitely supported programs: the full joint pmf over the source variables is compared; programs with "
    "continuous draws: all mixed moments of the source variables up to total degree 2 and the pure moments of degree 3 and 4",
    "auxiliary variables that are read before written are set to a marker value, two runs with different markers: a source-variable law that depends on the "
    "marker is reported as information carried across iterations",
    "not decided: abstraction of an iteration-independent condition over a continuous variable into Bernoulli(_prob) (needs P(cond) from a CDF) - such cases are oracle give-ups",
]

MARKS = [Fraction(987654321, 1000003), Fraction(123456789, 1000033)]


def budget(tier):
    ex = int(os.environ.get("VERIF_EXAMPLES", "0"))
    if tier == "quick":
        return dict(shards=16, examples=ex or 40, shrink_calls=40, shard_timeout=1500, time_budget=110)
    return dict(shards=16, examples=ex or 4000, shrink_calls=300, shard_timeout=6 * 3600, time_budget=1500)


@st.composite
def cases(draw, tier="quick"):
    profile = draw(st.sampled_from(["discrete"] * 5 + ["mixed"] * 3 + ["guarded", "edge"]))
    prog, meta = draw(gen.programs(profile, uninit_ok=False, max_body=4))
    opts = draw(st.sampled_from([{}, {}, {"transform_categoricals": True}, {"cond2arithm": True}, {"transform_categoricals": True, "cond2arithm": True}]))
    return {"prog": prog, "opts": opts}


def strategy(tier):
    return cases(tier)


def law_signature(ast, variables, N, mark, discrete, src_vars=()):
    """per iteration: joint pmf over `variables` (discrete) or a vector of mixed moments"""
    uv = common.uninit_vars(ast)
    # source variables the program leaves uninitialised always get the same value; only auxiliaries get the varying marker
    it = refsem.Interp(ast, uninit={v: (MARKS[0] if v in src_vars else mark) for v in uv}, max_states=6000)
    dists = it.run(N)
    out = []
    for d in dists:
        if discrete:
            out.append(refsem.pmf(d, variables))
        else:
            sig = {}
            monos = [{v: 1} for v in variables] + [{v: 2} for v in variables] + [{v: 3} for v in variables] + [{v: 4} for v in variables]
            monos += [{a: 1, b: 1} for a, b in itertools.combinations(variables, 2)]
            for m in monos:
                sig[pd.monomial_to_str(m)] = refsem.expectation(d, m, it)
            out.append(sig)
    return out


def run_case(case, tier="quick"):
    prog = case["prog"]
    text = L.render_program(prog)
    opts = case["opts"]
    key = common.case_key({"t": text, "o": opts})
    tags = L.count_constructs(prog) + [f"opt:{k}" for k in sorted(opts)]
    base = {"key": key, "tags": tags}
    tl = 12 if tier == "quick" else 90
    src_vars = sorted(L.program_vars(prog))
    discrete = not any(t.startswith("draw:") and t.split(":")[1] in ("Normal", "Uniform", "Laplace", "DistExp", "Gamma", "Beta") for t in tags) and "func" not in tags
    N = 4
    try:
        with pd.time_limit(tl):
            pd.set_settings(**opts)
            parsed = pd.parse(text)
            import copy

            snaps = [("Parser", copy.deepcopy(parsed))]
            with snapshot.PassRecorder() as rec:
                final = pd.normalize(parsed)
            snaps += rec.snaps
    except pd.CaseTimeout:
        return dict(base, status="inconclusive", bucket="polar_time_limit")
    except Exception as e:
        return dict(base, status="refusal", bucket=pd.refusal_bucket(e), detail=str(e)[:200])
    if final.abstracted_const_store:
        return dict(base, status="gave_up", bucket="abstracted_condition")
    try:
        with pd.time_limit(tl * 4):
            truth = law_signature(prog, src_vars, N, MARKS[0], discrete, src_vars)
            changed = 0
            prev_text = None
            for idx, (name, snap) in enumerate(snaps):
                stext = str(snap)
                if stext == prev_text:
                    continue
                if prev_text is not None:
                    changed += 1
                prev_text = stext
                ast = snapshot.program_to_ast(snap)
                present = set(L.program_vars(ast))
                vs = [v for v in src_vars if v in present]
                sigs = []
                for mark in MARKS:
                    sigs.append(law_signature(ast, vs, N, mark, discrete, src_vars))
                    if not [v for v in common.uninit_vars(ast) if v not in src_vars]:
                        sigs.append(sigs[0])
                        break
                if sigs[0] != sigs[1]:
                    return dict(base, status="violation", bucket=f"depends_on_uninitialised_auxiliary:{name}", nontrivial=True,
                                detail={"program": text, "options": opts, "pass": name, "snapshot": stext})
                # project the truth on the variables still present
                for n in range(N + 1):
                    if discrete:
                        idxs = [src_vars.index(v) for v in vs]
                        proj = {}
                        for k_, p_ in truth[n].items():
                            kk = tuple(k_[i] for i in idxs)
                            proj[kk] = proj.get(kk, 0) + p_
                        same = proj == sigs[0][n]
                    else:
                        same = all(sigs[0][n][m] == truth[n][m] for m in sigs[0][n])
                    if not same:
                        return dict(base, status="violation", bucket=f"distribution_changed:{name}", nontrivial=True,
                                    detail={"program": text, "options": opts, "pass": name, "pass_index": idx, "n": n, "snapshot": stext,
                                            "previous_snapshot": str(snaps[idx - 1][1]) if idx else None,
                                            "expected": _show(truth[n] if not discrete else proj), "got": _show(sigs[0][n]), "variables": vs})
                # loop constants that were folded must have been loop constants of the source
                for v in src_vars:
                    if v not in present and v in L.stmts_assigned(prog["body"]):
                        return dict(base, status="violation", bucket=f"assigned_variable_removed:{name}", detail={"program": text, "pass": name, "variable": v, "snapshot": stext})
    except refsem.OracleGiveUp as e:
        return dict(base, status="gave_up", bucket=str(e)[:60])
    except pd.CaseTimeout:
        return dict(base, status="gave_up", bucket="oracle_time_limit")
    interesting = any(t in tags for t in ("if", "guard", "choice", "draw_var_param", "simult")) or _repeated(prog)
    return dict(base, status="ok", nontrivial=bool(changed >= 2 and interesting), counters={"snapshots_compared": changed + 1})


def _repeated(prog):
    seen = set()
    for s in prog["body"]:
        if s[0] == "assign":
            if s[1] in seen:
                return True
            seen.add(s[1])
    return False


def _show(d):
    return {str(k): L.fs(v) if isinstance(v, Fraction) else str(v) for k, v in list(d.items())[:40]}


def classify(case, verdict):
    return None


def sample_repr(case, verdict):
    return {"program": L.render_program(case["prog"]), "options": case["opts"], "status": verdict["status"], "tags": verdict["tags"]}
