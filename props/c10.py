"""
C10 - reported sensitivities are the parameter derivatives of the exact moments.

Oracle: the exact interpreter evaluates E(M)(n) at K rational values of the parameter; the values are interpolated exactly (Lagrange over
Fractions, verified on held-out points; the degree is raised until verification succeeds), the interpolant is differentiated formally.
Compared with (i) the solution of the sensitivity recurrences (DiffRecBuilder), (ii) the differentiated closed form, (iii) each other.
"""
import os
from fractions import Fraction

from hypothesis import strategies as st

from lib import gen, lang as L, refsem, polar_driver as pd, common

PROPERTY_ID = "C10"
RULE = (
    "programs from the generator profile 'param' (parameter p in probabilities {p}, Bernoulli(p), 1-p, p/2, as coefficient, as initial value, inside branches; "
    "optionally a second parameter q fixed to a rational; 30% with an accumulator acc = acc + c(p)*u*v over a p-dependent and a p-independent variable); one goal monomial of degree <= 3; "
    "non-trivial = the true derivative is not identically zero on the tested n; distinct by (program, goal)"
)
ASSUMPTIONS = [
    "E(M)(n) is a polynomial in p for the generated programs (p enters polynomially); it is recovered exactly by interpolation on K points and must reproduce 3 held-out "
    "points, otherwise the oracle gives up",
    "derivatives are compared at 2 rational parameter values for n=0..4",
]

PVALS = [Fraction(i, 23) for i in range(1, 12)] + [Fraction(i, 29) for i in range(1, 15)]
TEST_PS = [Fraction(1, 3), Fraction(2, 7)]


def budget(tier):
    ex = int(os.environ.get("VERIF_EXAMPLES", "0"))
    if tier == "quick":
        return dict(shards=16, examples=ex or 20, shrink_calls=30, shard_timeout=1500, time_budget=110)
    return dict(shards=16, examples=ex or 1500, shrink_calls=200, shard_timeout=6 * 3600, time_budget=1500)


@st.composite
def cases(draw, tier="quick"):
    prog, meta = draw(gen.programs("param", uninit_ok=False, max_body=3))
    if "p" not in L.program_symbols(prog):
        # make sure the parameter occurs: a probabilistic step on a numeric variable or a {0,1}-valued finite variable
        if meta["num"]:
            x = draw(st.sampled_from(meta["num"]))
            stmt = ["assign", x, ["choice", [["add", L.var(x), L.num(1)], L.var(x)], [["sym", "p"]]]]
        else:
            ok = [f for f, D in meta["fin"].items() if {"0", "1"} <= set(D)]
            stmt = ["assign", ok[0], ["draw", "Bernoulli", [["sym", "p"]]]] if ok else ["assign", "x", ["expr", ["sym", "p"]]]
        prog["body"].insert(draw(st.integers(0, len(prog["body"]))), stmt)
    goals = draw(gen.goals_for(prog, meta, max_goals=1))
    # prefer a goal over a variable that (transitively) depends on the parameter
    dep = _dependent_vars(prog)
    if dep and not (set(goals[0]) & dep):
        goals[0][draw(st.sampled_from(sorted(dep)))] = 1
    qv = draw(st.sampled_from(["1/4", "2/5", "1/5"]))
    if draw(st.integers(0, 9)) >= 7:
        # an accumulator whose increment has the parameter as coefficient of a product of a parameter-dependent and a
        # parameter-independent variable (cost = cost + p*hits*time): the product rule has to see both factors
        dn, tn = draw(st.sampled_from([("h", "t"), ("t", "h"), ("hits", "time"), ("time", "hits"), ("m", "kk"), ("kk", "m")]))
        dep_stmt = draw(st.sampled_from([["assign", dn, ["draw", "Bernoulli", [["sym", "p"]]]],
                                         ["assign", dn, ["choice", [["add", L.var(dn), L.num(1)], L.var(dn)], [["sym", "p"]]]]]))
        ind_stmt = draw(st.sampled_from([["assign", tn, ["expr", ["add", L.var(tn), L.num(1)]]], ["assign", tn, ["draw", "DiscreteUniform", [L.num(1), L.num(3)]]],
                                         ["assign", tn, ["choice", [["mul", L.num(2), L.var(tn)], L.var(tn)], [L.num("1/2")]]]]))
        coeff = draw(st.sampled_from([["sym", "p"], ["sub", L.num(1), ["sym", "p"]], ["mul", L.num(2), ["sym", "p"]], ["pow", ["sym", "p"], 2]]))
        f1, f2 = (L.var(dn), L.var(tn)) if draw(st.booleans()) else (L.var(tn), L.var(dn))
        acc_stmt = ["assign", "acc", ["expr", ["add", L.var("acc"), ["mul", ["mul", coeff, f1], f2]]]]
        prog["body"] += [dep_stmt, ind_stmt, acc_stmt] if draw(st.booleans()) else [ind_stmt, dep_stmt, acc_stmt]
        prog["init"] += [["assign", dn, ["expr", L.num(0)]], ["assign", tn, ["expr", L.num(1)]], ["assign", "acc", ["expr", L.num(0)]]]
        return {"prog": prog, "goal": {"acc": 1}, "q": qv}
    return {"prog": prog, "goal": goals[0], "q": qv}


def _dependent_vars(prog):
    """variables whose assignments mention p directly or through other variables / enclosing conditions"""
    deps = {}

    def walk(stmts, ctx):
        for s in stmts:
            if s[0] == "assign":
                used = L.rhs_vars(s[2], set(), ("var", "sym")) | ctx
                deps.setdefault(s[1], set()).update(used)
            elif s[0] == "simult":
                for v, r in zip(s[1], s[2]):
                    deps.setdefault(v, set()).update(L.rhs_vars(r, set(), ("var", "sym")) | ctx)
            elif s[0] == "if":
                acc = set(ctx)
                for cd, b in s[1]:
                    acc |= L.cond_vars(cd, set(), ("var", "sym"))
                    walk(b, acc)
                if s[2] is not None:
                    walk(s[2], acc)

    walk(prog["init"], set())
    walk(prog["body"], L.cond_vars(prog["guard"], set(), ("var", "sym")))
    dep = {v for v, u in deps.items() if "p" in u}
    changed = True
    while changed:
        changed = False
        for v, u in deps.items():
            if v not in dep and u & dep:
                dep.add(v)
                changed = True
    return dep & L.stmts_assigned(prog["body"])


def strategy(tier):
    return cases(tier)


def interpolate_derivative(points):
    """points: list of (x, y) Fractions; returns function x -> derivative of the Lagrange interpolant (exact)"""
    # Newton divided differences
    xs = [p[0] for p in points]
    coef = [p[1] for p in points]
    n = len(points)
    for j in range(1, n):
        for i in range(n - 1, j - 1, -1):
            coef[i] = (coef[i] - coef[i - 1]) / (xs[i] - xs[i - j])

    def value_and_derivative(x):
        # Horner on Newton form with derivative
        v = coef[-1]
        dv = Fraction(0)
        for i in range(n - 2, -1, -1):
            dv = dv * (x - xs[i]) + v
            v = v * (x - xs[i]) + coef[i]
        return v, dv

    return value_and_derivative


def run_case(case, tier="quick"):
    import sympy
    from symengine.lib.symengine_wrapper import sympify, Symbol as SESymbol
    from cli.common import get_moment
    from recurrences import RecBuilder, DiffRecBuilder

    prog = case["prog"]
    text = L.render_program(prog)
    mono = case["goal"]
    k = pd.monomial_to_str(mono)
    key = common.case_key({"t": text, "g": k})
    tags = L.count_constructs(prog)
    base = {"key": key, "tags": tags}
    tl = 15 if tier == "quick" else 100
    syms = sorted(L.program_symbols(prog))
    if "p" not in syms:
        return dict(base, status="gave_up", bucket="no_parameter")
    other = {s: Fraction(case["q"]) for s in syms if s != "p"}
    results = {}
    try:
        with pd.time_limit(tl):
            pd.set_settings()
            program = pd.normalize(pd.parse(text))
            param = SESymbol("p")
            if param not in program.symbols:
                return dict(base, status="gave_up", bucket="parameter_folded_away")
            cli = pd.default_cli_args()
            try:
                drb = DiffRecBuilder(program, param)
                results["diff_recurrences"] = get_moment(sympify(k), {}, drb, cli, program)
            except pd.CaseTimeout:
                raise
            except Exception as e:
                results["diff_recurrences"] = e
            try:
                mom, exact = get_moment(sympify(k), {}, RecBuilder(program), cli, program)
                results["diff_closed_form"] = (sympy.sympify(mom).diff(sympy.Symbol("p")), exact)
            except pd.CaseTimeout:
                raise
            except Exception as e:
                results["diff_closed_form"] = e
    except pd.CaseTimeout:
        return dict(base, status="inconclusive", bucket="polar_time_limit")
    except Exception as e:
        return dict(base, status="refusal", bucket=pd.refusal_bucket(e), detail=str(e)[:200])
    good = {m: r for m, r in results.items() if not isinstance(r, Exception)}
    for m, r in results.items():
        if isinstance(r, Exception):
            tags.append(f"refused:{m}")
    if not good:
        return dict(base, status="refusal", bucket=pd.refusal_bucket(results["diff_recurrences"]), detail=str(results["diff_recurrences"])[:200])
    # ---- oracle
    N = 4
    un = {v: Fraction(common.UNINIT_VALUES[i % 5]) for i, v in enumerate(common.uninit_vars(prog))}
    try:
        with pd.time_limit(tl * 4):
            def values_at(pv):
                env = dict(other, p=pv)
                p2 = L.subst_syms_program(prog, env)
                it = refsem.Interp(p2, uninit=un, max_states=4000)
                return [refsem.expectation(d, mono, it) for d in it.run(N)]

            truth = None
            for K in (6, 10, 16, 25):
                pts = PVALS[:K]
                vals = [values_at(pv) for pv in pts]
                held = [Fraction(3, 31), Fraction(5, 37), Fraction(9, 41)]
                hv = [values_at(pv) for pv in held]
                fns = [interpolate_derivative([(pts[i], vals[i][n]) for i in range(K)]) for n in range(N + 1)]
                if all(fns[n](h)[0] == hv[j][n] for n in range(N + 1) for j, h in enumerate(held)):
                    truth = fns
                    tags.append(f"interpolation_points={K}")
                    break
            if truth is None:
                return dict(base, status="gave_up", bucket="not_polynomial_in_p_up_to_degree_24")
    except refsem.OracleGiveUp as e:
        return dict(base, status="gave_up", bucket=str(e)[:60])
    except pd.CaseTimeout:
        return dict(base, status="gave_up", bucket="oracle_time_limit")
    nonzero = False
    vals_by_method = {}
    try:
        with pd.time_limit(tl * 3):
            for method, (expr, exact) in good.items():
                for p0 in TEST_PS:
                    subs = common.polar_subs(dict({s: v for s, v in other.items()}, p=p0), un)
                    for n in range(N + 1):
                        t = truth[n](p0)[1]
                        nonzero = nonzero or t != 0
                        try:
                            pv = pd.eval_closed_form(expr, n, subs)
                        except ValueError:
                            continue
                        vals_by_method[(method, p0, n)] = pv
                        if not pd.values_equal(pv, t):
                            return dict(base, status="violation", bucket=f"wrong_sensitivity:{method}", nontrivial=True,
                                        detail={"program": text, "goal": k, "method": method, "p": L.fs(p0), "n": n, "polar": common.fmt(pv), "truth": L.fs(t),
                                                "expression": str(expr)[:400], "other_parameters": {s: L.fs(v) for s, v in other.items()}})
    except pd.CaseTimeout:
        return dict(base, status="inconclusive", bucket="evaluation_time_limit")
    except KeyError as e:
        return dict(base, status="violation", bucket="unexpected_symbols", detail={"program": text, "goal": k, "msg": str(e)[:200]})
    if len(good) == 2:
        tags.append("both_methods")
    return dict(base, status="ok", nontrivial=nonzero, counters={"methods_compared": len(good)})


def classify(case, verdict):
    return None


def sample_repr(case, verdict):
    return {"program": L.render_program(case["prog"]), "goal": pd.monomial_to_str(case["goal"]), "status": verdict["status"], "tags": verdict["tags"]}
