"""
C17 - strategy and representation options do not change any reported result.

Metamorphic / differential: the closed forms obtained under the baseline settings and under each other settings vector must agree at every
n whenever both succeed.  Numeric-root options: flagged exact => equal to the baseline; flagged rounded => within the growth bound of C04.
"""
import os
from fractions import Fraction

from hypothesis import strategies as st

from lib import gen, lang as L, refsem, polar_driver as pd, common

PROPERTY_ID = "C17"
RULE = (
    "programs from the C01 generator with 1-2 goals; per case 3 option vectors out of {cond2arithm, transform_categoricals, both, forced cyclic solver, "
    "explicit types block for the finite variables as Finite(..) or FiniteRange(lo, hi) (inference still on), explicit types + disable_type_inference, numeric_roots (eps 1e-10), numeric_croots, "
    "numeric_roots+forced cyclic}; non-trivial = at least one alternative vector succeeded and the option changed something observable (normal form text, "
    "solver class) or the program has a choice/condition; distinct by (program, goals, vectors)"
)
ASSUMPTIONS = [
    "purely differential: the baseline itself is checked against the reference interpreter by C01; on a disagreement the replay also records which side the exact interpreter supports",
    "a crash under one settings vector is a refusal (the statement only speaks about goals that succeed under both settings)",
    "rounded results: |value - baseline| <= 1e-3 * max(1, (|A|^n |v|)_i) with A, v the recurrence system of that run",
]

VECTORS = ["cond2arithm", "transform_categoricals", "both", "force_cyclic", "types", "types_range", "types_noinfer", "numeric_roots", "numeric_croots", "numeric_roots_cyclic"]


def budget(tier):
    ex = int(os.environ.get("VERIF_EXAMPLES", "0"))
    if tier == "quick":
        return dict(shards=16, examples=ex or 16, shrink_calls=30, shard_timeout=1500, time_budget=120)
    return dict(shards=16, examples=ex or 1500, shrink_calls=200, shard_timeout=6 * 3600, time_budget=1500)


@st.composite
def cases(draw, tier="quick"):
    profile = draw(st.sampled_from(["discrete"] * 5 + ["mixed"] * 2 + ["guarded"] * 2 + ["param"]))
    prog, meta = draw(gen.programs(profile, uninit_ok=False, max_body=3))
    goals = draw(gen.goals_for(prog, meta, max_goals=2))
    points = draw(gen.param_points(prog, 1))
    vecs = draw(st.lists(st.sampled_from(VECTORS), min_size=3, max_size=3, unique=True))
    return {"prog": prog, "meta": meta, "goals": goals, "points": points, "vectors": vecs}


def strategy(tier):
    return cases(tier)


def _with_types(prog, meta, ranges=False):
    from fractions import Fraction as Fr

    p2 = dict(prog)
    types = {}
    for f, D in meta["fin"].items():
        vals = sorted(Fr(x) for x in D)
        consecutive = all(v.denominator == 1 for v in vals) and all(b - a == 1 for a, b in zip(vals, vals[1:]))
        if ranges and consecutive:
            types[f] = ["FiniteRange", [str(vals[0]), str(vals[-1])]]
        else:
            types[f] = ["Finite", list(D)]
    p2["types"] = types
    return p2


def _run(text, opts, goals, force_cyclic, tl):
    """returns dict goal -> (expr, exact, solver, S_n function) or exception; plus normal form text"""
    from recurrences import RecBuilder
    from recurrences.solver import RecurrenceSolver
    from symengine.lib.symengine_wrapper import sympify

    pd.set_settings(**opts)
    program = pd.normalize(pd.parse(text))
    rb = RecBuilder(program)
    out = {}
    for mono in goals:
        k = pd.monomial_to_str(mono)
        try:
            with pd.time_limit(tl):
                recs = rb.get_recurrences(sympify(k))
                s = RecurrenceSolver(recs, force_cyclic_solver=force_cyclic)
                out[k] = (s.get(sympify(k)), bool(s.is_exact), type(s.solver).__name__, recs)
        except pd.CaseTimeout:
            out[k] = pd.CaseTimeout()
        except Exception as e:
            out[k] = e
    return out, str(program)


def _growth(recs, k, subs, nmax):
    """entrywise-absolute growth bound of component k"""
    import sympy

    rep = {s: sympy.Rational(Fraction(v).numerator, Fraction(v).denominator) for s in recs.recurrence_matrix.free_symbols | recs.init_values_vector.free_symbols
           for name, v in subs.items() if s.name == name}
    A = recs.recurrence_matrix.xreplace(rep).applyfunc(lambda x: abs(x))
    v = recs.init_values_vector.xreplace(rep).applyfunc(lambda x: abs(x))
    idx = recs.monomials.index(sympy.sympify(k))
    out = []
    for _ in range(nmax + 1):
        out.append(float(v[idx]))
        v = A * v
    return out


def run_case(case, tier="quick"):
    import sympy

    prog = case["prog"]
    text = L.render_program(prog)
    key = common.case_key({"t": text, "g": case["goals"], "v": case["vectors"]})
    tags = L.count_constructs(prog)
    base = {"key": key, "tags": tags}
    tl = 10 if tier == "quick" else 60
    try:
        with pd.time_limit(tl * 2):
            base_res, base_nf = _run(text, {}, case["goals"], False, tl)
    except pd.CaseTimeout:
        return dict(base, status="inconclusive", bucket="polar_time_limit")
    except Exception as e:
        return dict(base, status="refusal", bucket="baseline:" + pd.refusal_bucket(e), detail=str(e)[:200])
    if any(isinstance(v, pd.CaseTimeout) for v in base_res.values()):
        return dict(base, status="inconclusive", bucket="polar_time_limit")
    good = {k: v for k, v in base_res.items() if not isinstance(v, Exception)}
    if not good:
        return dict(base, status="refusal", bucket="baseline_goal:" + pd.refusal_bucket(next(iter(base_res.values()))))
    env = case["points"][0] if case["points"] else {}
    un = {v: Fraction(common.UNINIT_VALUES[i % len(common.UNINIT_VALUES)]) for i, v in enumerate(common.uninit_vars(prog))}
    subs = common.polar_subs(env, un)
    compared = 0
    observable = False
    refusals = {}
    for vec in case["vectors"]:
        opts, force, t2 = {}, False, text
        if vec == "cond2arithm":
            opts = {"cond2arithm": True}
        elif vec == "transform_categoricals":
            opts = {"transform_categoricals": True}
        elif vec == "both":
            opts = {"cond2arithm": True, "transform_categoricals": True}
        elif vec == "force_cyclic":
            force = True
        elif vec in ("types", "types_range", "types_noinfer"):
            if not case["meta"]["fin"]:
                continue
            t2 = L.render_program(_with_types(prog, case["meta"], ranges=(vec == "types_range")))
            if vec == "types_noinfer":
                opts = {"disable_type_inference": True}
        elif vec == "numeric_roots":
            opts = {"numeric_roots": True, "numeric_eps": 1e-10}
        elif vec == "numeric_croots":
            opts = {"numeric_croots": True}
            force = True
        elif vec == "numeric_roots_cyclic":
            opts = {"numeric_roots": True, "numeric_eps": 1e-10}
            force = True
        try:
            with pd.time_limit(tl * 2):
                res, nf = _run(t2, opts, [m for m in case["goals"] if pd.monomial_to_str(m) in good], force, tl)
        except pd.CaseTimeout:
            # nothing further is evaluated in this process after an interrupted sympy computation
            return dict(base, status="inconclusive", bucket="time_limit")
        except Exception as e:
            refusals[vec] = pd.refusal_bucket(e)
            continue
        for k, r in res.items():
            if isinstance(r, pd.CaseTimeout):
                return dict(base, status="inconclusive", bucket="time_limit")
            if isinstance(r, Exception):
                refusals[vec] = refusals.get(vec) or pd.refusal_bucket(r)
                continue
            expr, exact, solver, recs = r
            bexpr, bexact, bsolver, brecs = good[k]
            tags.append(f"{vec}:{solver}{'' if exact else ':rounded'}")
            if nf != base_nf or solver != bsolver:
                observable = True
            N = min(8, max(pd.max_special_case(expr), pd.max_special_case(bexpr)) + 3)
            try:
                with pd.time_limit(tl * 3):
                    growth = None
                    for n in range(N + 1):
                        try:
                            a = pd.eval_closed_form(bexpr, n, subs)
                            b = pd.eval_closed_form(expr, n, subs)
                        except ValueError:
                            continue
                        except KeyError:
                            # an answer in terms of a generated symbol (a condition abstracted to Bernoulli(_prob) when type inference
                            # is switched off) is a partial result, not a number that could be compared
                            refusals[vec] = refusals.get(vec) or "answer_with_generated_symbol"
                            break
                        if exact:
                            ok = pd.values_equal(b, a, 40) if isinstance(a, Fraction) else pd.values_equal(a, Fraction(0), 40) and pd.values_equal(b, Fraction(0), 40) or \
                                abs(complex(sympy.N(sympy.sympify(b) - sympy.sympify(a), 50))) <= 1e-40 * max(1.0, abs(complex(sympy.N(sympy.sympify(a), 30))))
                        else:
                            if growth is None:
                                growth = _growth(recs, k, subs, N)
                            av = complex(sympy.N(sympy.Rational(a.numerator, a.denominator) if isinstance(a, Fraction) else a, 30))
                            bv = complex(sympy.N(sympy.Rational(b.numerator, b.denominator) if isinstance(b, Fraction) else b, 30))
                            ok = abs(av - bv) <= 1e-3 * max(1.0, growth[n])
                        if not ok:
                            side = _who_is_right(case, k, n, a, b)
                            return dict(base, status="violation", bucket=f"options_disagree:{vec}:{'exact' if exact else 'rounded'}", nontrivial=True,
                                        detail={"program": t2, "goal": k, "vector": vec, "n": n, "baseline": common.fmt(a), "alternative": common.fmt(b),
                                                "baseline_form": str(bexpr)[:400], "alternative_form": str(expr)[:400], "flag_exact": exact, "exact_interpreter": side})
                    compared += 1
            except pd.CaseTimeout:
                return dict(base, status="inconclusive", bucket="evaluation_time_limit")
    for vec, b in refusals.items():
        tags.append(f"refused:{vec}")
    has_cond = any(t in tags for t in ("choice", "if", "guard"))
    return dict(base, status="ok", nontrivial=bool(compared and (observable or has_cond)),
                counters={"vector_comparisons": compared, "vector_refusals": len(refusals)})


def _who_is_right(case, k, n, a, b):
    try:
        mono = [m for m in case["goals"] if pd.monomial_to_str(m) == k][0]
        runs = common.oracle_runs(case["prog"], case["points"][:1], n, max_states=5000)
        env, un, it, dists = runs[0]
        t = refsem.expectation(dists[n], mono, it)
        return {"truth": common.fmt(t), "baseline_right": pd.values_equal(a, t), "alternative_right": pd.values_equal(b, t)}
    except Exception as e:
        return {"oracle": f"unavailable ({type(e).__name__})"}


def classify(case, verdict):
    return None


def sample_repr(case, verdict):
    return {"program": L.render_program(case["prog"]), "goals": [pd.monomial_to_str(g) for g in case["goals"]], "vectors": case["vectors"],
            "status": verdict["status"], "tags": verdict["tags"]}
