"""
C15 - Bayesian-network import and queries agree with the network's joint law.

Generator: own network model (DAG on 1-4 variables, domain sizes 2-3, CPT rows with two-decimal probabilities) rendered to BIF text with a
random mix of table / default / per-entry notation, separators, comments, property lines, names needing sanitising.
Oracle: (i) acceptance only if every row is specified and sums to 1 within the tolerance; (ii) notation independence against the all-table
rendering and against the model; (iii) one iteration of the generated loop has the model's joint pmf; (iv) printed answers of the
exact-inference and sampling-time queries equal E(X^k | evidence) and 1/P(evidence) by enumeration.
"""
import itertools
import os
import re
from fractions import Fraction

from hypothesis import strategies as st

from lib import lang as L, refsem, polar_driver as pd, common, snapshot

PROPERTY_ID = "C15"
RULE = (
    "networks with 1-4 variables (domains of 2-3 values, names incl. hyphens, upper case, sanitising collisions and names that lower-case to CAS constants: E, Pi, I), random DAG, CPT rows in hundredths summing to "
    "exactly 1; 25% of the cases carry one defect (row sum off by 0.002 / 0.01 / 0.05, a missing row, a missing table value); notation per CPT drawn from table / "
    "entries / default+entries; sub-checks: parse+model equality (all), generated loop joint pmf (40%), exact-inference query (30%), sampling-time query (15%); "
    "non-trivial = >= 2 variables with an edge and evidence probability strictly between 0 and 1; distinct by the BIF text and query"
)
ASSUMPTIONS = [
    "the joint pmf of the model is enumerated with Fractions built from the decimal strings",
    "acceptance is one-directional (accepted only if well-formed); that well-formed files are accepted is measured, not required",
    "loop and query clauses are judged only on models whose rows sum to exactly 1",
]

NAMES = ["A", "rain", "Wet-Grass", "x1", "Node_2", "smoke", "B-c", "Bc", "E", "Pi", "I"]  # E, Pi, I: lower-cased they are constants of the CAS (survey network: A, S, E, O, R, T)
VALS = [["yes", "no"], ["t", "f"], ["low", "mid", "high"], ["0", "1"], ["a", "b", "c"], ["on", "off"]]


def budget(tier):
    ex = int(os.environ.get("VERIF_EXAMPLES", "0"))
    if tier == "quick":
        return dict(shards=16, examples=ex or 40, shrink_calls=20, shard_timeout=1500, time_budget=110)
    return dict(shards=16, examples=ex or 3000, shrink_calls=150, shard_timeout=6 * 3600, time_budget=1500)


@st.composite
def row(draw, k):
    cuts = sorted(draw(st.lists(st.integers(0, 100), min_size=k - 1, max_size=k - 1)))
    parts = [b - a for a, b in zip([0] + cuts, cuts + [100])]
    return [f"{p / 100:.2f}" for p in parts]


@st.composite
def cases(draw, tier="quick"):
    n = draw(st.integers(1, 4))
    names = draw(st.lists(st.sampled_from(NAMES), min_size=n, max_size=n, unique=True))
    variables = []
    for i, nm in enumerate(names):
        dom = draw(st.sampled_from(VALS))
        parents = [names[j] for j in range(i) if draw(st.integers(0, 2)) == 0][:2]
        variables.append({"name": nm, "domain": dom, "parents": parents})
    for v in variables:
        pdoms = [next(w["domain"] for w in variables if w["name"] == p) for p in v["parents"]]
        v["cpt"] = {",".join(c): draw(row(len(v["domain"]))) for c in itertools.product(*pdoms)}
        v["notation"] = draw(st.sampled_from(["table", "entries", "default_entries"]))
    defect = None
    if draw(st.integers(0, 3)) == 0:
        defect = {"kind": draw(st.sampled_from(["sum_off_0.002", "sum_off_0.01", "sum_off_0.05", "missing_row", "short_table"])), "var": draw(st.integers(0, n - 1))}
    what = draw(st.sampled_from(["loop"] * 4 + ["inference"] * 3 + ["sampling"] * 2 + ["parse"]))
    case = {"variables": variables, "defect": defect, "what": what, "sep": draw(st.sampled_from([", ", " | ", " "])), "comments": draw(st.booleans())}
    # query
    ev_n = draw(st.integers(1, min(2, n)))
    ev_vars = draw(st.lists(st.integers(0, n - 1), min_size=ev_n, max_size=ev_n, unique=True))
    case["evidence"] = [[variables[i]["name"], draw(st.sampled_from(variables[i]["domain"]))] for i in ev_vars]
    case["target"] = variables[draw(st.integers(0, n - 1))]["name"]
    case["power"] = draw(st.integers(1, 3))
    return case


def strategy(tier):
    return cases(tier)


def render_bif(case, all_table=False):
    vs = case["variables"]
    sep = case["sep"]
    out = ["network generated {", "  property note generated network;" if case["comments"] else "", "}"]
    for v in vs:
        out.append(f"variable {v['name']} {{")
        if case["comments"]:
            out.append("  // a comment")
        out.append(f"  type discrete [ {len(v['domain'])} ] {{ {sep.join(v['domain'])} }};")
        out.append("}")
    for vi, v in enumerate(vs):
        head = v["name"] + ((" | " + ", ".join(v["parents"])) if v["parents"] else "")
        out.append(f"probability ( {head} ) {{")
        cpt = {k: list(r) for k, r in v["cpt"].items()}
        rows = list(cpt.keys())
        d = case["defect"] if (case["defect"] and case["defect"]["var"] == vi and not all_table) else None
        if d and d["kind"].startswith("sum_off"):
            delta = Fraction(d["kind"].split("_")[-1])
            r0 = rows[0]
            cpt[r0][0] = str(float(Fraction(cpt[r0][0]) + delta))
        notation = "table" if all_table else v["notation"]
        if notation == "table" or not v["parents"]:
            vals = []
            for i in range(len(v["domain"])):
                for r in rows:
                    vals.append(cpt[r][i])
            if d and d["kind"] in ("short_table", "missing_row"):
                vals = vals[:-1]
            out.append(f"  table {sep.join(vals)};")
        else:
            use_rows = rows
            if notation == "default_entries":
                out.append(f"  default {sep.join(cpt[rows[-1]])};")
                use_rows = rows[:-1] if len(rows) > 1 else rows
            if d and d["kind"] in ("missing_row", "short_table") and notation != "default_entries":
                use_rows = use_rows[:-1]
            for r in use_rows:
                out.append(f"  ({sep.join(r.split(','))}) {sep.join(cpt[r])};")
        out.append("}")
    return "\n".join(x for x in out if x != "") + "\n"


def joint(case):
    """dict: tuple of domain positions -> probability"""
    vs = case["variables"]
    idx = {v["name"]: i for i, v in enumerate(vs)}
    out = {}
    for combo in itertools.product(*[range(len(v["domain"])) for v in vs]):
        p = Fraction(1)
        for i, v in enumerate(vs):
            key = ",".join(vs[idx[pn]]["domain"][combo[idx[pn]]] for pn in v["parents"])
            p *= Fraction(v["cpt"][key][combo[i]])
        out[combo] = p
    return out


def rows_exact(case):
    return all(sum(Fraction(x) for x in r) == 1 for v in case["variables"] for r in v["cpt"].values())


def _tmp(text):
    d = os.path.join(os.path.dirname(os.path.dirname(os.path.abspath(__file__))), "out", "tmp")
    os.makedirs(d, exist_ok=True)
    path = os.path.join(d, f"net-{os.getpid()}.bif")
    with open(path, "w") as f:
        f.write(text)
    return path


def run_case(case, tier="quick"):
    from bayesnet.parser import BifParser
    from bayesnet.code_generator import CodeGenerator

    text = render_bif(case)
    key = common.case_key({"t": text, "w": case["what"], "e": case["evidence"], "g": case["target"], "p": case["power"]})
    vs = case["variables"]
    has_edge = any(v["parents"] for v in vs)
    tags = [case["what"], f"vars={len(vs)}"] + sorted({"notation:" + v["notation"] for v in vs}) + (["defect:" + case["defect"]["kind"]] if case["defect"] else [])
    base = {"key": key, "tags": tags}
    tl = 40 if tier == "quick" else 300
    pd.set_settings()
    path = _tmp(text)
    try:
        # ---- (i) acceptance
        try:
            net = BifParser().parse_file(path)
            accepted = True
        except Exception as e:
            accepted = False
            rej = type(e).__name__
        if case["defect"]:
            kind = case["defect"]["kind"]
            must_reject = kind in ("sum_off_0.002", "sum_off_0.01", "sum_off_0.05", "missing_row", "short_table")
            # a "missing row" is only a defect if the CPT really lacks it (default notation covers it)
            v = vs[case["defect"]["var"]]
            if kind in ("missing_row", "short_table") and v["notation"] == "default_entries" and v["parents"]:
                must_reject = False
            if accepted and must_reject:
                return dict(base, status="violation", bucket="illformed_bif_accepted:" + kind, nontrivial=True, detail={"bif": text, "defect": case["defect"]})
            if not accepted:
                return dict(base, status="ok", nontrivial=has_edge, counters={"rejected_defective": 1})
        if not accepted:
            return dict(base, status="refusal", bucket="wellformed_bif_rejected:" + rej, detail=text[:600])
        # ---- (ii) notation independence and model equality
        if not case["defect"]:
            p2 = _tmp(render_bif(case, all_table=True))
            net2 = BifParser().parse_file(p2)
            if not (net == net2):
                return dict(base, status="violation", bucket="notation_dependent_network", detail={"bif": text, "all_table": render_bif(case, all_table=True)})
            for v in vs:
                bv = net.variables[v["name"]]
                if tuple(bv.domain) != tuple(v["domain"]) or [p.name for p in bv.parents] != v["parents"]:
                    return dict(base, status="violation", bucket="structure_differs_from_model", detail={"bif": text, "variable": v["name"]})
                for k, r in v["cpt"].items():
                    cond = tuple(k.split(",")) if k else ()
                    got = bv.cpt[cond]
                    if [Fraction(str(x)) for x in got] != [Fraction(x) for x in r]:
                        return dict(base, status="violation", bucket="cpt_differs_from_model", detail={"bif": text, "variable": v["name"], "row": k, "polar": list(got), "model": r})
        if case["defect"] or not rows_exact(case) or case["what"] == "parse":
            return dict(base, status="ok", nontrivial=has_edge)
        jt = joint(case)
        # ---- (iii) generated loop
        if case["what"] == "loop":
            cg = CodeGenerator(net)
            code = cg.generate_code()
            with pd.time_limit(tl):
                try:
                    prog = pd.parse(code)
                except pd.CaseTimeout:
                    raise
                except Exception as e:
                    # the program text is Polar's own output for a well-formed network
                    return dict(base, status="violation", bucket="generated_program_rejected:" + type(e).__name__, nontrivial=True,
                                detail={"bif": text, "code": code, "error": str(e)[-300:]})
                ast = snapshot.program_to_ast(prog)
                it = refsem.Interp(ast, uninit={}, max_states=5000)
                d1 = it.run(1)[1]
            names = [cg.polar_variable_names[v["name"]] for v in vs]
            if len(set(names)) != len(names):
                return dict(base, status="violation", bucket="variable_names_collide", detail={"bif": text, "names": names})
            pm = refsem.pmf(d1, names)
            got = {tuple(int(x) for x in k): p for k, p in pm.items()}
            want = {k: p for k, p in jt.items() if p != 0}
            if got != want:
                return dict(base, status="violation", bucket="generated_loop_joint_distribution", nontrivial=True,
                            detail={"bif": text, "code": code, "got": {str(k): L.fs(v) for k, v in got.items()}, "model": {str(k): L.fs(v) for k, v in want.items()}})
            return dict(base, status="ok", nontrivial=has_edge)
        # ---- (iv) queries through the CLI action
        from cli.actions.bayesian_network_action import BayesNetworkAction

        idx = {v["name"]: i for i, v in enumerate(vs)}
        ev = [(idx[n_], vs[idx[n_]]["domain"].index(val)) for n_, val in case["evidence"]]
        pev = sum(p for k, p in jt.items() if all(k[i] == j for i, j in ev))
        evq = ", ".join(f"{n_} = {val}" for n_, val in case["evidence"])
        base["nontrivial"] = has_edge and 0 < pev < 1
        if pev == 0:
            return dict(base, status="gave_up", bucket="evidence_has_probability_zero")
        args = pd.default_cli_args()
        if case["what"] == "inference":
            ti = idx[case["target"]]
            k = case["power"]
            truth = sum(p * Fraction(kk[ti]) ** k for kk, p in jt.items() if all(kk[i] == j for i, j in ev)) / pev
            args.exact_inference = f"{case['target']}**{k} | {evq}"
            args.sample_time_until = None
        else:
            truth = 1 / pev
            args.sample_time_until = evq
            args.exact_inference = None
        args.bif_to_prob = None
        try:
            with pd.time_limit(tl), pd.captured_stdout() as buf:
                BayesNetworkAction(args)(path)
        except pd.CaseTimeout:
            return dict(base, status="inconclusive", bucket="polar_time_limit")
        except Exception as e:
            if "lark" in type(e).__module__ or "inputparser" in pd.refusal_bucket(e):
                return dict(base, status="violation", bucket="generated_program_rejected:" + type(e).__name__, nontrivial=True,
                            detail={"bif": text, "query": args.exact_inference or args.sample_time_until, "error": str(e)[-300:]})
            return dict(base, status="refusal", bucket=pd.refusal_bucket(e), detail=str(e)[:200])
        out = buf.getvalue()
        m = re.search(r"^E\(.*\) = (.*) ≈ ", out, re.M) if case["what"] == "inference" else re.search(r"is (.*) ≈ ", out)
        if not m:
            return dict(base, status="violation", bucket="no_answer_printed", detail={"bif": text, "output": out[-800:]})
        import sympy

        try:
            val = sympy.sympify(m.group(1))
        except Exception:
            return dict(base, status="violation", bucket="answer_not_a_number", detail={"bif": text, "answer": m.group(1)})
        if val.free_symbols:
            return dict(base, status="violation", bucket="answer_is_a_formula", nontrivial=True, detail={"bif": text, "query": args.exact_inference or args.sample_time_until, "answer": str(val), "truth": L.fs(truth)})
        try:
            ok = common.exact_fraction(val) == truth
        except common.NotRational:
            ok = False
        if not ok:
            return dict(base, status="violation", bucket=f"query_answer:{case['what']}", nontrivial=True,
                        detail={"bif": text, "query": args.exact_inference or args.sample_time_until, "answer": str(val), "truth": L.fs(truth)})
        return dict(base, status="ok")
    finally:
        try:
            os.unlink(path)
        except OSError:
            pass


def classify(case, verdict):
    return None


def sample_repr(case, verdict):
    return {"bif": render_bif(case), "what": case["what"], "evidence": case["evidence"], "target": case["target"], "power": case["power"],
            "status": verdict["status"], "tags": verdict["tags"]}
