#!/bin/bash
# tools/seed_mutant.sh <PROPERTY_ID> <name> <worktree> [extra check ids...]
# Confirms a seeded change (made by an independent sub-agent in <worktree>) and stores it under seeded/<ID>-<name>/:
#   1. demo fails with the change and passes without it (in the worktree)
#   2. the pinned test-suite still passes with the change (in the worktree)
#   3. the registered quick check(s) are run against /repo with the patch applied, then the patch is undone
set -u
ID=$1; NAME=$2; WT=$3; shift 3
CHECKS="$ID $*"
REPO=${MUT_REPO:-/repo}   # a scratch worktree of /repo may be used instead (the checks then run with POLAR_REPO=$REPO)
cd "$(dirname "$0")/.."
export VERIF_EVIDENCE_DIR="$PWD/out/evidence-scratch"   # runs with a seeded change never overwrite evidence/
D=seeded/$ID-$NAME
mkdir -p "$D"
git -C "$WT" diff > "$D/patch.diff"
cp "$WT/demo_mutant.py" "$D/demo_mutant.py" 2>/dev/null
cp "$WT/MUTANT_NOTES.md" "$D/MUTANT_NOTES.md" 2>/dev/null
if [ ! -s "$D/patch.diff" ]; then echo "empty patch"; exit 2; fi

( cd "$WT" && timeout 900 /venv/bin/python demo_mutant.py > /tmp/demo_with.txt 2>&1 ); WITH=$?
( cd "$WT" && git stash -q && timeout 900 /venv/bin/python demo_mutant.py > /tmp/demo_without.txt 2>&1; echo $? > /tmp/demo_without.rc; git stash pop -q )
WITHOUT=$(cat /tmp/demo_without.rc)
echo "demo: with change exit=$WITH, without exit=$WITHOUT"

( cd "$WT" && timeout 1800 /venv/bin/python -m pytest -q -p no:cacheprovider --timeout=900 --continue-on-collection-errors tests 2>&1 | tail -1 ) > /tmp/mut_tests.txt
TESTS=$(cat /tmp/mut_tests.txt)
echo "tests with change: $TESTS"

if ! git -C $REPO diff --quiet; then echo "$REPO has uncommitted changes - abort"; exit 2; fi
git -C $REPO apply "$PWD/$D/patch.diff" || { echo "patch does not apply to $REPO"; exit 2; }
RES=""
for C in $CHECKS; do
  OUT=$(POLAR_REPO=$REPO VERIF_SEED=${VERIF_SEED:-1} ./check $C --tier quick 2>&1 | grep -v Warning | grep -v '\$')
  RC=$?
  LINE=$(echo "$OUT" | grep -c "^VIOLATION")
  SUMMARY=$(echo "$OUT" | grep "seed=" | tail -1)
  echo "check $C: violations=$LINE :: $SUMMARY"
  echo "$OUT" | grep "^VIOLATION" | head -3
  RES="$RES{\"check\": \"$C\", \"violation_lines\": $LINE, \"summary\": \"$(echo $SUMMARY | sed 's/"/\\"/g')\"},"
  # keep the first replay file as evidence of detection
  R=$(echo "$OUT" | grep "^VIOLATION" | head -1 | sed 's/.*replay=//')
  if [ -n "$R" ] && [ -f "$R" ]; then cp "$R" "$D/detected-by-$C.json"; fi
done
git -C $REPO checkout -- .
cat > "$D/meta.json" <<EOF
{
 "property": "$ID",
 "name": "$NAME",
 "demo_exit_with_change": $WITH,
 "demo_exit_without_change": $WITHOUT,
 "tests_with_change": "$TESTS",
 "checks_run": [${RES%,}],
 "what_ran": "tools/seed_mutant.sh: demo in the sub-agent's worktree with and without the patch; pinned pytest suite in the worktree with the patch; git -C /repo apply patch.diff; ./check <ID> --tier quick (VERIF_SEED=${VERIF_SEED:-1}); git -C /repo checkout -- .",
 "needs_to_manifest": "see MUTANT_NOTES.md"
}
EOF
echo "stored in $D"
