#!/bin/bash
# tools/run_all.sh [tier] [seed] : runs every registered check once, prints one line per check
cd "$(dirname "$0")/.."
TIER=${1:-quick}; export VERIF_SEED=${2:-1}
for id in $(/venv/bin/python -c "import json;print(' '.join(c['property_id'] for c in json.load(open('MANIFEST.json'))['checks']))"); do
  S=$(date +%s)
  OUT=$(./check $id --tier $TIER 2>&1 | grep -v Warning | grep -v '\$')
  RC=$?
  echo "$id rc=$(echo "$OUT" | grep -c '^VIOLATION') t=$(( $(date +%s) - S ))s :: $(echo "$OUT" | grep 'seed=' | tail -1 | cut -c1-260)"
  echo "$OUT" | grep -E "^VIOLATION|harness error" | head -3
done
