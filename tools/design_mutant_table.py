#!/venv/bin/python
"""prints the markdown table of seeded changes for DESIGN.md 8.4 from seeded/*/meta.json"""
import json, os
V = os.path.dirname(os.path.dirname(os.path.abspath(__file__)))
print("| seeded change | breaks | needs | quick checks with a VIOLATION (latest run) | quick checks silent |")
print("|---|---|---|---|---|")
for name in sorted(os.listdir(os.path.join(V, "seeded"))):
    mp = os.path.join(V, "seeded", name, "meta.json")
    if not os.path.exists(mp):
        continue
    m = json.load(open(mp))
    res = m.get("latest") or [{"check": c["check"], "exit": 1 if c["violation_lines"] else 0, "buckets": []} for c in m.get("checks_run", [])]
    hit = [f"{r['check']} ({'; '.join(sorted(set(b.split(':')[0] + (':' + b.split(':')[1] if ':' in b and r['check'] in ('C02',) else '') for b in r['buckets'])))})" if r["buckets"] else r["check"] for r in res if r["exit"] == 1]
    miss = [r["check"] for r in res if r["exit"] == 0]
    print(f"| {name} | {m.get('breaks','')} | {m.get('needs_to_manifest','')} | {', '.join(hit) or '-'} | {', '.join(miss) or '-'} |")
