#!/usr/bin/env python3
"""Regenerates MANIFEST.json from the table below (keeps it valid at all times)."""
import json
import os

VERIF = os.path.dirname(os.path.dirname(os.path.abspath(__file__)))

TRUSTED = ("Trusted base: Hypothesis 6.168, the exact reference interpreter lib/refsem.py (rational arithmetic, "
           "no sympy/symengine), the harness's own evaluation of Polar's formulas through sympy substitution.")

CHECKS = {
    "C01": dict(
        technique="property-based testing: grammar-generated loop programs, exact-distribution reference interpreter as oracle",
        text="Generated-input search: every run draws a few hundred to several thousand loop programs with goals and compares "
             "Polar's closed form at n=0..N, and beyond the listed special cases, with exact expected values computed by an "
             "independent interpreter of the language semantics; also the printed 'E(M) = ...' and '--at_n' lines. "
             "Exploration is the right level because the property quantifies over all programs and n; no finite argument covers it.",
        note=TRUSTED + " Bounds: <=7 variables, body <=4 top-level statements, nesting <=2, goal degree <=3, n<=8 (10 thorough) plus 2 "
             "iterations past the special cases; parameters at 2 rational points.",
        design="DESIGN.md section 4 C01",
    ),
    "C04": dict(
        technique="property-based testing: generated recurrence matrices of controlled Jordan structure, exact matrix iteration as oracle, differential between both solvers",
        text="Generated-input search over recurrence systems built directly as Recurrences objects (dimension 1-5; diagonal, triangular, "
             "nilpotent, companion matrices of prescribed rational/irrational/complex root multisets, similarity transforms, parametric entries, "
             "inhomogeneous parts, symbolic initial values) under the default and forced-cyclic solver and the numeric-root options; every component "
             "of the closed form is compared with A^n v for n=0..2*dim+4; exactness flag checked both ways as stated in DESIGN. "
             "Exploration: the property quantifies over all matrices and n.",
        note=TRUSTED + " Oracle: Fraction matrix iteration. Non-rational closed forms (radicals, CRootOf) are compared numerically with adaptive precision "
             "(agreement of two working precisions, 1e-40). Rounded results are judged against the entrywise growth bound only for eps<=1e-10. dim<=5.",
        design="DESIGN.md section 4 C04",
    ),
    "C16": dict(
        technique="property-based testing: generated lists of rational/algebraic numbers, independent reference lattice (own integer kernel cross-checked by brute-force box enumeration)",
        text="Generated-input search over lists of 1-4 non-zero numbers (prime-power rationals with non-unit multiplicities, shared primes, units, "
             "negative numbers; algebraic numbers incl. roots of unity and conjugate pairs). Oracle in both directions: every returned vector satisfies the "
             "relation exactly, the vectors are independent (exact rank), and every relation of an independently computed reference lattice is an integer "
             "combination of the returned basis. Exploration over inputs is the natural level.",
        note=TRUSTED.replace("the exact reference interpreter lib/refsem.py (rational arithmetic, no sympy/symengine)", "lib/intlattice.py (own integer kernel / rank / membership over Fractions)") +
             " Algebraic inputs: completeness decided only inside the box [-4,4]^k (k<=3) / [-3,3]^4, exact confirmation via sympy minimal_polynomial.",
        design="DESIGN.md section 4 C16",
    ),
    "C08": dict(
        technique="property-based testing: generated (family, parameters, order) tuples against independent textbook formulas and defining integrals (mpmath quadrature)",
        text="Generated-input search over the ten families with rational, decimal-literal and symbolic parameters: raw moments k=0..8 exactly against "
             "independently written formulas (each re-validated per case against quadrature of the density), supports and discreteness, cf/mgf values against "
             "E exp(itX) / E exp(tX) by quadrature, derivatives at 0 against the moments, the mgf existence predicate in both directions, "
             "symbolic-parameter-then-substitute (metamorphic) and the location/scale rewriting of DistTransformer (moments 1..6 of the emitted polynomial).",
        note="Trusted base: Hypothesis, mpmath quadrature at 40 digits, lib/refsem.family_moment + lib/distref (own formulas/densities). TruncNormal tolerance 1e-9 "
             "(docstring disclaims exactness). Expressions that are undefined at a point (cf of DiscreteUniform at t=0) are counted as refusals, not wrong values.",
        design="DESIGN.md section 4 C08",
    ),
    "C11": dict(
        technique="property-based testing: random finitely supported laws / generated programs / cumulant vectors against definitions (central moments, set-partition cumulants, exact pmf tail probabilities, Gaussian-moment integration, textbook Cornish-Fisher)",
        text="Six generated sub-checks: moment conversions on random laws up to order 64 against the definitions (a different algorithm than Polar's recursion), "
             "central moments / cumulants of program goals and their printed lines against the exact pmf of the reference interpreter at every n, validity of every "
             "printed upper and lower tail bound against exact tail probabilities (assumption evaluated too), Gram-Charlier normalisation and first k moments by exact "
             "Gaussian integration, Cornish-Fisher against the textbook expansion for 3-5 cumulants.",
        note=TRUSTED + " mpmath (400-digit Taylor expansion of the log-mgf for cumulants of order 10-24; erfinv). Cumulant conversion above order 24 is not judged; "
             "program level: orders 2-4, n<=6, finitely supported programs only.",
        design="DESIGN.md section 4 C11",
    ),
    "C13": dict(
        technique="property-based testing: generated (family, parameters, exponent triple) requests and template programs with Sin/Cos/Exp assignments, mpmath quadrature of the defining integral as oracle",
        text="Generated-input search: direct calls of FunctionalAssignment.get_func_moment / get_const_moment for all families with a cf/mgf, exponents 0..4 "
             "(frequency 0 included), exponential powers at and beyond the mgf boundary (must be rejected), mixed Exp x Sin/Cos requests (must be rejected or right), "
             "both exact_func_moments settings; and generated programs with functional assignments of draws, references and constants, inside branches, whose closed "
             "forms are compared with the reference interpreter using quadrature-based joint moments for n=0..4.",
        note="Trusted base: Hypothesis, mpmath quadrature at 40 digits with densities from lib/distref.py, lib/refsem.py. Tolerances: exact mode 1e-20, rounded mode 1e-18 "
             "(single moments) / 1e-14 (program results), TruncNormal 1e-9.",
        design="DESIGN.md section 4 C13",
    ),
    "C06": dict(
        technique="property-based testing: generated exponential-polynomial closed forms and programs, exact evaluation of every reported invariant on the goal sequences",
        text="Generated-input search: InvariantIdeal on 2-4 generated closed forms (rational and algebraic bases built to hit the exponent-lattice code, polynomial "
             "factors, Piecewise special cases) - every basis element is evaluated exactly on the goal values for 13 consecutive n past the special cases; and "
             "end-to-end through GoalsAction with --invariants on generated programs, where the printed basis is evaluated on the reference interpreter's exact "
             "moments / central moments / cumulants.",
        note=TRUSTED + " Algebraic bases: exact sympy numbers with adaptive-precision confirmation (1e-40). <=4 goals; Groebner time limit => inconclusive.",
        design="DESIGN.md section 4 C06",
    ),
    "C07": dict(
        technique="property-based testing: generated closed forms, exact linear algebra on sequence values finds all relations up to degree D, ideal membership of each in the reported basis",
        text="Generated-input search: for 2-4 generated closed forms with rational bases the space of polynomial relations of degree <= D (3, or 2 for four goals) is "
             "computed independently by Gaussian elimination over Fractions on 3m sequence values and re-validated on 2m further values; every such relation must "
             "reduce to 0 modulo the reported basis, and 'no invariants' requires the space to be zero. Together with C06 this decides both inclusions up to degree D.",
        note="Trusted base: Hypothesis, own Fraction Gaussian elimination, sympy's Groebner normal form applied to Polar's output. Bounds: k<=4, D<=3, rational bases only.",
        design="DESIGN.md section 4 C07",
    ),
    "C03": dict(
        technique="property-based testing: generated programs, recurrence systems checked against the exact one-step expectations of the reference interpreter",
        text="Generated-input search: for every monomial of the system returned by RecBuilder.get_recurrences the equation E(M)(n+1) = sum c_i E(M_i)(n) + c is "
             "evaluated exactly (n=0..3) on the distribution computed by the reference interpreter from the normal form, the recorded initial value is compared with "
             "E(M)(0), closure of the system is checked by an own term walk, and the matrix/vector form is compared with the dict form. Isolates recurrence "
             "construction from solving (C04) and normalisation (C02).",
        note=TRUSTED + " The normal form is read back through lib/snapshot.py (field structure only). Systems up to ~40 monomials, goal degree <= 3; default settings and cond2arithm.",
        design="DESIGN.md section 4 C03",
    ),
    "C05": dict(
        technique="property-based testing: generated programs, reachable value sets from the exact reference interpreter (value-collecting mode) against the inferred Finite types",
        text="Generated-input search: programs with guards that become false, repeated assignments and branches are normalised under type_fp_iterations in {1,2,3,10,100}; "
             "the normal form and the source are interpreted exactly for n=0..8 collecting every value every variable (original and auxiliary) holds after each executed "
             "assignment; each must lie in the inferred Finite type. The consequence clause is checked directly: reduce_power(k) and every arithmetised condition "
             "evaluate correctly on all collected values / states.",
        note=TRUSTED + " Auxiliary variables Polar leaves uninitialised get marker values (two runs with different markers); marker-dependent values of auxiliaries are "
             "'undefined' and not judged, original variables are always judged. n<=8.",
        design="DESIGN.md section 4 C05",
    ),
    "C02": dict(
        technique="property-based testing: generated programs, snapshot after every normalization pass interpreted by the exact reference semantics and compared with the source's joint law",
        text="Generated-input search: the program object returned by every Transformer.execute that the real normalize_program performs is deep-copied (monkey-patch from "
             "the harness), read back into the own AST and interpreted exactly for n=0..4; its joint pmf over the source variables (finitely supported programs) or all "
             "mixed moments up to degree 2 plus pure moments to degree 4 (continuous draws) must equal the source's at every iteration boundary, under all four "
             "combinations of transform_categoricals x cond2arithm. Two runs with different marker values for uninitialised auxiliaries detect information carried "
             "across iterations. The first deviating pass is named in the replay.",
        note=TRUSTED + " lib/snapshot.py reads only field structure of Polar's objects. Not decided: Bernoulli abstraction of conditions over continuous variables (oracle gives up).",
        design="DESIGN.md section 4 C02",
    ),
    "C17": dict(
        technique="property-based testing, metamorphic/differential: the same generated program and goals analysed under different settings vectors must give closed forms that agree at every n",
        text="Generated-input search over programs and settings vectors (cond2arithm, transform_categoricals, both, forced cyclic solver, explicit types block with and "
             "without inference, numeric_roots, numeric_croots): whenever the baseline and an alternative both succeed their closed forms are compared at n=0..N and a "
             "parameter point; results flagged exact must be equal, results flagged rounded must stay within the growth bound of C04; a crash under one vector is a refusal.",
        note=TRUSTED + " Differential only (the baseline is judged against the reference interpreter by C01; on a disagreement the replay records which side the interpreter supports).",
        design="DESIGN.md section 4 C17",
    ),
    "C18": dict(
        technique="property-based testing: programs generated inside the documented class by construction, acceptance predicate + exact reference interpreter; refusals identified by (exception type, raising function)",
        text="Generated-input search over programs that satisfy the README's loop restrictions by construction, including the sub-classes the property names (loop "
             "constants in conditions, nested branches reassigning their own condition variables, non-integer finite values in conditions, goals over loop constants, "
             "guards, categorical and location/scale draws): normalize_program, RecBuilder.get_recurrences and RecurrenceSolver.get must not raise for goals over "
             "effective variables, the closed form must not contain unexpected symbols, and every accepted answer is compared with the exact interpreter. Open "
             "refusal call sites are listed in known_findings.json and reported as KNOWN-FINDING; any other exception type or raising function is a violation.",
        note=TRUSTED + " Soundness of the generator (only programs inside the class) is argued in lib/gen.py; goals over variables Polar classifies defective are skipped; time limits are inconclusive.",
        design="DESIGN.md section 4 C18",
    ),
    "C19": dict(
        technique="property-based testing, metamorphic (equivalent renderings of one AST must give equal closed forms, checked against the exact interpreter) plus negative testing with grammar-violating mutation operators",
        text="Generated-input search: (a) one AST is rendered twice, differing in >= 2 of the style knobs the property lists (whitespace, comments, blank lines, "
             "redundant parentheses, decimal vs fraction literals, explicit vs omitted last probability, simultaneous assignment vs explicit temporaries, elif vs nested "
             "else-if) and with precedence-sensitive constants (2-3-4, -2**2, 2**3**2, ...); both closed forms must agree at every n and rendering A must agree with the "
             "exact interpreter of the AST (Python precedence, remainder probability, parallel assignment, exact decimals); (b) texts damaged by one of 11 structural "
             "mutation operators must be rejected by the parser; choices with negative probabilities or a sum above 1 must be rejected; (c) a variable renamed to a "
             "name the computer algebra system reads as a constant (e, pi, oo, ...) or to a name Polar generates itself (_t0, ...) must be rejected or analysed like "
             "the original program.",
        note=TRUSTED + " The mutation operators were chosen by inspection of syntax.lark so that every result is outside the grammar. A variant refused after parsing "
             "(the nested-if refusal listed under C18) is counted as a refusal, a parse error on a rewritten valid text is a violation.",
        design="DESIGN.md section 4 C19",
    ),
    "C09": dict(
        technique="property-based testing: generated guarded loops; exact conditional sequence from the reference interpreter, exact exit distribution by absorbing-Markov-chain algebra / closed-form geometric series",
        text="Generated-input search over guarded loops: finite-state programs (exit distribution conditional on exit computed exactly by solving (I-Q) over Fractions) and "
             "geometric-exit templates with affine updates including divergent cases; the values reported with after_loop for raw moments, central moments and cumulants "
             "are compared with the exact quantities at exit (infinite when the series diverges to infinity), and get_moment_given_termination is compared at every n<=7 "
             "with E(M | stopped by n). The known lag of that sequence (C09-F1) is recognised only by the exact relation polar(n) == truth(n-1).",
        note=TRUSTED + " Oscillating (conditionally divergent) exits are not judged; template central/cumulant goals only at order 2; <=300 running states.",
        design="DESIGN.md section 4 C09",
    ),
    "C10": dict(
        technique="property-based testing: generated parametric programs; exact derivative of the moment in the parameter by exact polynomial interpolation of reference-interpreter values",
        text="Generated-input search over programs with a symbolic parameter in probabilities, coefficients, initial values and branches: E(M)(n) is evaluated exactly by the "
             "reference interpreter at K rational parameter values, interpolated exactly (Newton form over Fractions, verified on 3 held-out values, K raised until it verifies) and "
             "differentiated formally; the result is compared at 2 parameter values and n=0..4 with the solution of the sensitivity recurrences (DiffRecBuilder) and with the "
             "differentiated closed form, which are thereby also compared with each other.",
        note=TRUSTED + " Only programs in which the moment is polynomial in p up to degree 24 are judged (the generator produces such programs); other parameters fixed to rationals.",
        design="DESIGN.md section 4 C10",
    ),
    "C12": dict(
        technique="property-based testing with scripted randomness: exhaustive path enumeration of the simulator per generated program against the exact interpreter's pmf; interception of the scipy sampler calls",
        text="Generated-input search: (structure) the un-normalised parsed program is simulated once per path with random.choices / random.choice / the scipy rvs methods "
             "replaced by a depth-first path oracle that records the weights the code asks for; the induced pmf over states after every iteration (frozen states, first-match "
             "branches, simultaneous assignment included) must equal the exact interpreter's pmf; continuous draws are replaced by the same two-point surrogate on both "
             "sides. (sampler) the distribution requested from scipy by Distribution.sample must have the moments get_moment(k) claims and a support inside get_support(), and "
             "200 real samples must lie in the declared support.",
        note=TRUSTED + " Floats: states rounded to 1e-9, probabilities compared at 1e-9. <= 3000 paths, <= 3 iterations. Sample statistics are deliberately not used (deterministic check).",
        design="DESIGN.md section 4 C12",
    ),
    "C20": dict(
        technique="property-based testing over generated analysis histories (sequence / model-based): each step's in-process result is compared with the same single analysis in a fresh subprocess; hash-seed differential",
        text="Generated histories of analyses (generated programs and benchmark files, permuted goal lists, repeated analyses, settings vectors applied like the CLI, "
             "invariant and sensitivity requests, analyses that Polar refuses) are executed in one process; after every step the signature (closed forms as functions, "
             "exactness, inferred types up to generated names, reduced Groebner basis of the invariant ideal, error outcome) must equal the signature of the same single "
             "analysis in a fresh process state (a fork of the still unused case process; the last analysis also in new interpreters under other PYTHONHASHSEED values). "
             "About a third of the cases are command-line runs over 2-3 files through one action object and one argument namespace, as polar.py:main does; what is "
             "printed per file must be what the same command line prints for that file alone. The whole history shrinks as one value.",
        note=TRUSTED + " Histories are generated as explicit step lists by a composite strategy (preconditions are encoded in the generator) rather than by a RuleBasedStateMachine "
             "class so that a history is a JSON-able replay file run in its own forked child; PlotAction is not exercised (needs a display).",
        design="DESIGN.md section 4 C20",
    ),
    "C14": dict(
        technique="property-based testing: randomised instances of unsolvable-loop families, returned (invariant, closed form) pairs and synthesized loops checked against the exact interpreter of the source loop",
        text="Generated-input search over instances of four unsolvable-loop families (squares, non-linear Markov, degree-k cancellation, Fibonacci trace) with randomised "
             "coefficients, noise and initial values (numeric and symbolic), candidate sets, degrees 1-3, k=1 and general k, 25% perturbed to have no invariant: for every pair "
             "(Q, f) returned by UnsolvInvSynthesizer.synth_inv, E(Q(state_n)) computed by the exact interpreter equals f(n) for n=0..4 after substituting rationals for the "
             "free symbols; for SolvLoopSynthesizer.synth_loop every synthesized program is read back and interpreted: retained variables and the combination variable must "
             "reproduce E(var)(n) and E(Q)(n).",
        note=TRUSTED + " n<=4 (3 for degree-5 / trace families); only first moments of synthesized loops are compared (the tool does not claim more).",
        design="DESIGN.md section 4 C14",
    ),
    "C15": dict(
        technique="property-based testing: generated Bayesian-network models rendered to BIF in mixed notations (incl. defective files), parser/loop/query results against enumeration of the model's joint pmf",
        text="Generated-input search over own network models (DAG, domains, CPTs in hundredths) rendered with a random mix of table / default / per-entry notation, separators, "
             "comments and awkward names: defective files (row sums off by more than the tolerance, missing rows, short tables) must be rejected; accepted files must give "
             "the same network as the all-table rendering and as the model; one iteration of the generated loop (read back and interpreted exactly) must have the model's "
             "joint pmf with values numbered by domain position; the printed exact-inference and sampling-time answers must equal E(X^k | evidence) and 1/P(evidence).",
        note=TRUSTED + " Acceptance is judged one-directionally as the property states; <=4 variables, domains of 2-3 values. The atheris campaign sketched in DESIGN is not built.",
        design="DESIGN.md section 4 C15",
    ),
}

PENDING = {}


def main():
    props = [json.loads(l) for l in open(os.path.join(VERIF, "properties.jsonl"))]
    checks = []
    na = []
    for p in props:
        pid = p["id"]
        if pid in CHECKS and os.path.exists(os.path.join(VERIF, "props", pid.lower() + ".py")):
            c = CHECKS[pid]
            checks.append({
                "property_id": pid,
                "quick_cmd": f"./check {pid} --tier quick",
                "thorough_cmd": f"./check {pid} --tier thorough",
                "evidence_file": f"evidence/{pid}.json",
                "replay_cmd_template": f"./check {pid} --replay {{path}}",
                "engine": c.get("engine", "hypothesis"),
                "level_claimed": {"category": "exploration", "text": c["text"], "design_ref": c["design"]},
                "level_note": c["note"],
                "technique": c["technique"],
            })
        else:
            na.append({"property_id": pid, "reason": PENDING.get(pid, "check not built yet in this round; see DESIGN.md section 4 for the planned generator and oracle")})
    man = {
        "version": 1,
        "setup_cmd": "./setup.sh",
        "hooks": {
            "guard": "POLAR_VERIF",
            "enable": "no hooks in /repo are needed: the harness observes Polar by monkey-patching from outside (POLAR_VERIF is reserved and unused)",
            "baseline_off_cmd": "cd /repo && /venv/bin/python -m pytest -ra -q -p no:cacheprovider --timeout=900 --continue-on-collection-errors",
            "source_commits": [],
            "add_only": True,
        },
        "engines": [
            {"name": "hypothesis-runner", "path": "lib/runner.py", "serves_properties": [c["property_id"] for c in checks],
             "kind_free_text": "sharded Hypothesis runner (16 worker processes), collect-then-shrink, fresh-process confirmation, known-findings handling"},
        ],
        "checks": checks,
        "not_applicable": na,
        "notes": "All checks: ./check <ID> --tier quick|thorough ; VERIF_SEED selects the Hypothesis seed; exit 0 held / 1 VIOLATION / 2 harness error. "
                 "Known findings: known_findings.json (committed).",
    }
    with open(os.path.join(VERIF, "MANIFEST.json"), "w") as f:
        json.dump(man, f, indent=1)
    print(f"{len(checks)} checks, {len(na)} not claimed")


if __name__ == "__main__":
    main()
