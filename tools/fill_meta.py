#!/venv/bin/python
"""fills 'needs_to_manifest' and 'breaks' in seeded/*/meta.json from the table below"""
import json, os
V = os.path.dirname(os.path.dirname(os.path.abspath(__file__)))
NEEDS = {
 "C01-if-branch-condsyms": ("C01 (and C02)", "an if with >= 2 branches where a non-first branch assigns a variable that only an earlier branch's condition tests, followed by a further statement under the same if; the new value must be able to flip the earlier condition"),
 "C02-stale-alias": ("C02 (and C01)", "the same non-reduced atom (e.g. x + y > 1) used twice with an alias-free assignment to one of its variables in between, that assignment being the variable's last one in the body"),
 "C03-or-sum": ("C03 (and C01)", "an || whose two sides mention exactly the same variables and can both be true (x >= 1 || x == 2 over {0,1,2})"),
 "C04-acyclic-validfrom": ("C04 (and C01)", "two monomials with zero self-coefficient in a chain (b' = a, a' = const) feeding a monomial with non-zero self-coefficient, and a(0) different from a's closed form at n=0; only the default (acyclic) strategy"),
 "C05-typer-failed-unchanged": ("C05 (and C01)", "a variable that fails finite typing in the first pass (continuous draw or > 25 values) read by another variable placed earlier in the body whose initial values already contain the former's initial value; while true (no guard)"),
 "C06-sorted-bases": ("C06 (and C07)", "two multiplicatively dependent exponential bases first met in decreasing order (8**n before 4**n) with a lattice vector that is not symmetric under the swap"),
 "C07-minus-one-shortcut": ("C07 (and C16)", "an exponential base -1 next to pairwise coprime other bases, none equal to 1; soundness (C06) is kept"),
 "C08-uniform-parens": ("C08 (and C01)", "a Uniform draw whose lower bound is a sum or difference containing a variable (Uniform(x - 1, x + 1))"),
 "C11-cornish-weight": ("C11", "Cornish-Fisher expansion from >= 5 cumulants with non-zero third cumulant"),
 "C13-zero-frequency-factor": ("C13", "E(X^a sin^b X cos^c X) with b and c both even, a not divisible by 4 and E(X^a) != 0"),
 "C16-kernel-pivot": ("C16", "rational bases whose multiplicity matrix is rank deficient (two primes occurring only together, e.g. powers of 6) and a later row (another prime or the sign row) with an entry in a freed column: [-6, 6], [6, 30, 5]"),
 "C17-finiterange-upper": ("C17", "a types block with FiniteRange(a, b) for a variable that reaches b, and a condition or power reduction that distinguishes b"),
 "C18-typer-combination-bound": ("C18", "an expression (condition alias) over >= 2 finite variables whose value-set sizes multiply to more than 25 while the expression has <= 25 distinct values (two dice)"),
 "C19-remainder-unparenthesised": ("C19 (and C01)", "a choice with the last probability omitted and a written probability that contains a top-level + or - ({1 - p}, {1/2-1/4})"),
 "C12-normal-sample-subs": ("C12", "a Normal draw whose mean or variance mentions a program variable that changes between draws; at least two draws in one simulation run"),
 "C14-init-value-of-candidate": ("C14", "a random initial value (draw or choice) of a candidate variable together with an invariant that is non-linear in it"),
 "C15-table-row-radix": ("C15", "a variable in table notation with >= 2 parents where a parent other than the first has a domain size different from the child's"),
 "C20-atom-arithm-cache": ("C20", "two analyses in one process whose conditions normalise to the same atom text (x == 1) while the variable's finite type differs, the goal depending on that branch"),
 "C09-": ("C09", ""), "C10-": ("C10", ""),
}
for name in sorted(os.listdir(os.path.join(V, "seeded"))):
    mp = os.path.join(V, "seeded", name, "meta.json")
    if not os.path.exists(mp) or name not in NEEDS:
        continue
    m = json.load(open(mp))
    m["breaks"], m["needs_to_manifest"] = NEEDS[name]
    json.dump(m, open(mp, "w"), indent=1)
print("ok")
