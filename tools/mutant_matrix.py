#!/venv/bin/python
"""
tools/mutant_matrix.py [seed] [name-filter]: applies every seeded change to /repo in turn, runs the quick checks listed for it, undoes the
change, and writes seeded/RESULTS.md + seeded/<id>/meta.json["latest"].  /repo must be clean.
"""
import json
import os
import re
import subprocess
import sys

VERIF = os.path.dirname(os.path.dirname(os.path.abspath(__file__)))
REPO = os.environ.get("MUT_REPO", "/repo")  # a scratch worktree of /repo can be used instead (checks then run with POLAR_REPO=<it>)
os.chdir(VERIF)
seed = sys.argv[1] if len(sys.argv) > 1 else "1"
flt = sys.argv[2] if len(sys.argv) > 2 else ""
CHECKS = {
    "C01-if-branch-condsyms": ["C02", "C01"], "C01-summation-start": ["C01", "C04"], "C02-stale-alias": ["C02", "C01"], "C03-or-sum": ["C03", "C01"], "C04-acyclic-validfrom": ["C04"],
    "C05-typer-failed-unchanged": ["C05", "C01"], "C06-sorted-bases": ["C06", "C07"], "C07-minus-one-shortcut": ["C07", "C16", "C06"],
    "C08-uniform-parens": ["C08"], "C11-cornish-weight": ["C11"], "C13-zero-frequency-factor": ["C13"], "C16-kernel-pivot": ["C16"],
    "C17-finiterange-upper": ["C17"], "C18-typer-combination-bound": ["C18", "C01"], "C19-remainder-unparenthesised": ["C19", "C01"],
    "C06-kernel-stale-rows": ["C06", "C16", "C07"], "C16-setwise-coprime": ["C16", "C07"], "C07-lattice-binomials-unsaturated": ["C07", "C06"],
    "C02-uniform-lower-bound": ["C02", "C08"], "C03-binary-any": ["C03", "C01", "C05"], "C04-beginning-values": ["C04", "C01"],
}
rows = []
for name in sorted(os.listdir("seeded")):
    d = os.path.join("seeded", name)
    if not os.path.isdir(d) or flt not in name:
        continue
    if subprocess.run(["git", "-C", REPO, "diff", "--quiet"]).returncode != 0:
        print(REPO + " not clean"); sys.exit(2)
    if subprocess.run(["git", "-C", REPO, "apply", os.path.abspath(os.path.join(d, "patch.diff"))]).returncode != 0:
        rows.append((name, "patch does not apply", [])); continue
    res = []
    try:
        for c in CHECKS.get(name, [name.split("-")[0]]):
            env = dict(os.environ, VERIF_SEED=seed, POLAR_REPO=REPO, VERIF_EVIDENCE_DIR=os.path.join(VERIF, "out", "evidence-scratch"))
            p = subprocess.run(["./check", c, "--tier", "quick"], capture_output=True, text=True, env=env)
            viol = [l for l in p.stdout.splitlines() if l.startswith("VIOLATION")]
            summ = [l for l in p.stdout.splitlines() if "seed=" in l]
            buckets = []
            for v in viol[:3]:
                rp = v.split("replay=")[1]
                try:
                    b = json.load(open(rp))["verdict"]["bucket"]
                    buckets.append(b)
                    if len(buckets) == 1:
                        subprocess.run(["cp", rp, os.path.join(d, f"detected-by-{c}.json")])
                except Exception:
                    pass
            res.append({"check": c, "seed": int(seed), "exit": p.returncode, "violations": len(viol), "buckets": buckets, "summary": summ[-1][:200] if summ else ""})
            print(name, c, "exit", p.returncode, buckets, flush=True)
    finally:
        subprocess.run(["git", "-C", REPO, "checkout", "--", "."])
    mp = os.path.join(d, "meta.json")
    meta = json.load(open(mp))
    meta["latest"] = res
    json.dump(meta, open(mp, "w"), indent=1)
    rows.append((name, "", res))
# RESULTS.md is regenerated from the "latest" entries of all meta.json files (so that a filtered run does not drop rows)
with open("seeded/RESULTS.md", "w") as f:
    f.write("# Seeded changes against the quick checks (tools/mutant_matrix.py; latest run per seeded change)\n\n")
    f.write("| seeded change | check | seed | exit | violation buckets |\n|---|---|---|---|---|\n")
    for name in sorted(os.listdir("seeded")):
        mp = os.path.join("seeded", name, "meta.json")
        if not os.path.exists(mp):
            continue
        meta = json.load(open(mp))
        for r in meta.get("latest", []):
            f.write(f"| {name} | {r['check']} | {r.get('seed', '')} | {r['exit']} | {', '.join(r['buckets']) or '-'} |\n")
print("written seeded/RESULTS.md")
