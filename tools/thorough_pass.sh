#!/bin/bash
# tools/thorough_pass.sh <seconds per shard> <ID>... : runs the thorough tier of the given checks one after the other with a
# shortened generation time per shard (VERIF_TIME_BUDGET); same generators and limits as the registered thorough commands.
cd "$(dirname "$0")/.."
export VERIF_SEED=${VERIF_SEED:-1} VERIF_TIME_BUDGET=$1
shift
for id in "$@"; do
  S=$(date +%s)
  OUT=$(./check $id --tier thorough 2>&1 | grep -v Warning | grep -v '\$')
  echo "$id rc=$(echo "$OUT" | grep -c '^VIOLATION') t=$(( $(date +%s) - S ))s :: $(echo "$OUT" | grep 'seed=' | tail -1 | cut -c1-260)"
  echo "$OUT" | grep -E "^VIOLATION|harness error|KNOWN-FINDING" | cut -c1-200 | head -8
done
echo PASSDONE
