#!/bin/bash
# tools/try_mutant.sh <seeded dir> <check ids...> : apply the stored patch to /repo, run the quick checks, undo the patch
cd "$(dirname "$0")/.."
export VERIF_EVIDENCE_DIR="$PWD/out/evidence-scratch"   # runs with a seeded change never overwrite evidence/
D=$1; shift
if ! git -C /repo diff --quiet; then echo "/repo has uncommitted changes - abort"; exit 2; fi
git -C /repo apply "$PWD/$D/patch.diff" || exit 2
for C in "$@"; do
  OUT=$(VERIF_SEED=${VERIF_SEED:-1} ./check $C --tier quick 2>&1 | grep -v Warning | grep -v '\$')
  echo "$OUT" | grep -E "seed=|^VIOLATION" | head -4
  R=$(echo "$OUT" | grep "^VIOLATION" | head -1 | sed 's/.*replay=//')
  if [ -n "$R" ] && [ -f "$R" ]; then cp "$R" "$D/detected-by-$C.json"; fi
done
git -C /repo checkout -- .
